"""C11 - Replies are routed and formatted as RFC 6762 sections 5.4, 6 and 6.7 require."""
from __future__ import annotations

from typing import Any, Dict, List, Set, Tuple

from hypothesis import strategies as st

from vlib import respsim, responder as rp, sim
from vlib.core import Violation

ID = 'C11'
LEVEL = 'exploration'
RULE = ('One responder (1-3 services with default or small TTLs, socket layouts v4 / v6 / split listen+respond / two v4 / dual stack) '
        'whose records were last seen multicast at a known instant (own announcements loop back; optionally a peer re-announcement '
        'or an earlier QM query) receives one measured query: 1-4 questions, QU/QM per question, optional authority section '
        '(probe), any id, IPv4/IPv6 source, port 5353 or a legacy port, on the listen or a respond socket, arriving at a generated '
        'offset or at {-2,-1,0,+1,+2} ms around one quarter of a chosen record\'s TTL after its last sighting. The trace is decoded '
        'with the independent decoder and compared with ResponderModel + the routing rules: legacy => one unicast reply on the '
        'receiving socket echoing id and questions, all answers, no flush bits, plus multicast within 1.3 s; QU from 5353 => unicast '
        'alone for recently-multicast records, immediate multicast for the others; probes answered at once; every multicast reply of '
        'the whole run has id 0, flags 0x8400, no questions, flush bits exactly on non-PTR records, goes to the group of the socket\'s '
        'family on every send socket. Non-trivial = mixed QU+QM query, or answers on both sides of the quarter-TTL switch, or a '
        'multi-socket host.')
ASSUMPTIONS = [
    '"saw multicast" is the host\'s own perception: the last record-update callback that showed the record with a non-zero TTL',
    'for a PTR configured with other_ttl < 1125 s the interval between a quarter of the configured and of the floored TTL is don\'t care',
    'additional sections are covered by C03; here only answer sections are routed/checked',
]
BUDGET = {'quick': {'examples': 2500}, 'thorough': {'examples': 20000, 'shards': 16}}
EPS = 2.0

TYPES = ['_http._tcp.local.', '_ipp._tcp.local.']


@st.composite
def services_st(draw, max_n: int = 3) -> List[Dict[str, Any]]:
    n = draw(st.integers(1, max_n))
    out = []
    for i in range(n):
        t = draw(st.sampled_from(TYPES))
        small = draw(st.booleans())
        host = draw(st.sampled_from(['host-a.local.', 'host-b.local.']))
        out.append({'type': t, 'name': f'svc{i}.{t}', 'port': 80 + i, 'server': host,
                    'addrs': draw(st.sampled_from([['10.0.0.1'], ['fe80::1'], ['10.0.0.1', 'fe80::1']])) if host == 'host-a.local.'
                    else ['10.0.0.9'],
                    'props': draw(st.sampled_from(['', '0361623d'])),
                    'host_ttl': (8 if small else 120) if host == 'host-a.local.' else 16,
                    'other_ttl': 40 if small else 4500})
    return out


def q_st(n_svc: int):
    return st.tuples(st.sampled_from(['type', 'inst', 'host', 'inst', 'host', 'enum', 'ghost']), st.integers(0, n_svc - 1),
                     st.integers(0, 3), st.sampled_from([12, 12, 1, 28, 33, 16, 255]), st.booleans()).map(list)


@st.composite
def two_answers_scenario(draw) -> Dict[str, Any]:
    """Directed shape: one QU question with two answers (two services of one type) whose records were last multicast at different
    times - a peer repeated one of them 20 s after the announcements - asked when one is just past a quarter of its TTL and the
    other is not: the rule is per record."""
    socks = draw(st.sampled_from(['v4', 'v4', 'v4x2', 'v4-split']))
    small = draw(st.booleans())
    services = [{'type': TYPES[0], 'name': f'svc{i}.{TYPES[0]}', 'port': 80 + i, 'server': 'host-a.local.', 'addrs': ['10.0.0.1'], 'props': '',
                 'host_ttl': 120, 'other_ttl': 2000 if small else 4500} for i in range(2)]
    seen_again = draw(st.integers(0, 1))
    events: List[Dict[str, Any]] = [{'gap': 20000, 'kind': 'sighting', 'svc': seen_again, 'which': ['ptr']}]
    main = {'kind': 'query', 'qs': [['type', 0, 0, 12, True]] + draw(st.lists(q_st(2), max_size=1)), 'ka': [], 'probe': False,
            'client': draw(st.integers(0, 1)), 'family': 'v4', 'port': 5353, 'sock': draw(st.integers(0, 2)), 'id': 0, 'main': True,
            'quarter': [1 - seen_again, 'ptr'], 'delta': draw(st.sampled_from([1, 2, 1000, 5000]))}
    events.append(main)
    return {'jitter': {'seed': draw(st.integers(0, 10**6))}, 'socks': socks, 'services': services,
            'settle_ms': draw(st.sampled_from([1100, 2000, 5000])), 'events': events, 'tail_ms': 1600}


@st.composite
def scenario(draw) -> Dict[str, Any]:
    if draw(st.integers(0, 9)) == 0:
        return draw(two_answers_scenario())
    socks = draw(st.sampled_from(['v4', 'v4', 'v6', 'dual', 'v4x2', 'v4-split']))
    services = draw(services_st())
    fam_choices = {'v4': ['v4'], 'v4x2': ['v4'], 'v4-split': ['v4'], 'v6': ['v6'], 'dual': ['v4', 'v6']}[socks]
    events: List[Dict[str, Any]] = []
    pre = draw(st.sampled_from(['none', 'none', 'sighting', 'query']))
    if pre == 'sighting':
        events.append({'gap': draw(st.sampled_from([0, 500, 3000, 20000])), 'kind': 'sighting', 'svc': draw(st.integers(0, 2)),
                       'which': draw(st.sampled_from([['ptr', 'srv', 'txt', 'addr'], ['srv'], ['ptr'], ['addr', 'txt']]))})
    elif pre == 'query':
        events.append({'gap': draw(st.sampled_from([0, 3000, 40000])), 'kind': 'query', 'qs': [draw(q_st(len(services)))[:4] + [False]],
                       'ka': [], 'client': 2, 'family': fam_choices[0], 'port': 5353, 'sock': 0, 'id': 0})
        events.append({'gap': 2500, 'kind': 'sighting', 'svc': 0, 'which': []})   # spacer (empty announcement is not sent)
    main: Dict[str, Any] = {
        'kind': 'query', 'qs': draw(st.lists(q_st(len(services)), min_size=1, max_size=4)),
        'ka': draw(st.lists(st.tuples(st.integers(0, 9), st.sampled_from(['below', 'above', 'full', 'zero'])).map(list), max_size=2,
                            unique_by=lambda x: x[0])),
        'probe': draw(st.sampled_from([False, False, False, True])), 'client': draw(st.integers(0, 1)),
        'family': draw(st.sampled_from(fam_choices)), 'port': draw(st.sampled_from([5353, 5353, 5353, 40001, 53, 65535])),
        'sock': draw(st.integers(0, 2)), 'id': draw(st.sampled_from([0, 1, 0x1234, 0xFFFF])), 'main': True}
    if draw(st.booleans()):
        main['quarter'] = [draw(st.integers(0, len(services) - 1)), draw(st.sampled_from(['srv', 'ptr', 'txt', 'addr']))]
        main['delta'] = draw(st.sampled_from([-2, -1, 0, 1, 2, -1000, 1000]))
    else:
        main['gap'] = draw(st.one_of(st.sampled_from([0, 1, 1000, 1999, 2000, 2001, 4000, 9999, 10001, 29000, 31000, 60000]),
                                     st.integers(0, 1200000)))
    if main['port'] != 5353 and draw(st.integers(0, 4)) == 0:
        # the same machine also runs an mDNS querier whose truncated query (TC bit, port 5353) is being held for its continuation
        # when the legacy resolver's query arrives from the same address: the two have nothing to do with each other
        events.append({'gap': draw(st.sampled_from([0, 3000])), 'kind': 'query', 'qs': [draw(q_st(len(services)))[:4] + [False]], 'ka': [],
                       'client': main['client'], 'family': main['family'], 'port': 5353, 'sock': main['sock'], 'id': 0, 'tc': True,
                       'tc_hold': True})
        main.pop('quarter', None)
        main.pop('delta', None)
        main['gap'] = draw(st.sampled_from([1, 50, 100, 350]))
    events.append(main)
    has_qu = any(qq[4] for qq in main['qs'])
    if main['port'] == 5353 and has_qu and not main['probe'] and draw(st.integers(0, 2)) == 0:
        # the same bytes from another host (two browsers started together ask the same id-0 QU question): the second copy passes
        # the duplicate guard and is a query of its own, judged at its own arrival time - e.g. on the other side of the quarter-TTL
        # moment of a record
        twin = {k: v for k, v in main.items() if k not in ('main', 'quarter', 'delta', 'gap')}
        twin.update({'twin': True, 'gap': draw(st.sampled_from([0, 1, 3, 200, 700, 999, 1001, 1500])), 'client': (main['client'] + 1) % 3})
        if 'quarter' in main and draw(st.booleans()):
            # first copy just before the quarter-TTL moment of the chosen record, second copy just after it
            main['delta'] = draw(st.sampled_from([-2, -1, -1, -500]))
            twin['gap'] = draw(st.sampled_from([3, 3, 600, 998]))
        events.append(twin)
    elif main['port'] != 5353 and draw(st.integers(0, 2)) == 0:
        # a second stub resolver sends the very same bytes (ids are often 0, or collide) from another address or port, less than
        # or about a second later: it is that resolver's own query, not a link-layer duplicate
        twin = {k: v for k, v in main.items() if k not in ('main', 'quarter', 'delta', 'gap')}
        other_client = draw(st.booleans())
        twin.update({'twin': True, 'gap': draw(st.sampled_from([0, 1, 200, 900, 999, 1001])),
                     'client': (main['client'] + 1) % 3 if other_client else main['client'],
                     'port': main['port'] if other_client and draw(st.booleans()) else (40002 if main['port'] != 40002 else 40003)})
        events.append(twin)
    return {'jitter': {'seed': draw(st.integers(0, 10**6))}, 'socks': socks, 'services': services,
            'settle_ms': draw(st.sampled_from([1100, 2000, 5000])), 'events': events, 'tail_ms': 1600}


def strategy(tier: str):
    return scenario()


def _names_equal_exact(m_q: Dict[str, Any], want: Tuple[str, int, bool]) -> bool:
    from vlib import wire

    return wire.name_text(m_q['name']) == want[0] and m_q['type'] == want[1] and (m_q['cls'] & 0x7FFF) == 1


def check_twin(run: respsim.RespRun, q2: Dict[str, Any], q: Dict[str, Any]) -> None:
    """the same query bytes from another legacy source: that source gets its own unicast reply"""
    exp, dont_care, _, _ = q2['exp']
    mine = [s for s in run.sends if not s['mc'] and s['g'] > q2['g'] and (s['dst'], s['port']) == (q2['src'][0], q2['src'][1])]
    det = {'questions': q2['questions'], 'first_source': q['src'], 'second_source': q2['src'], 'ms_after_first': round(q2['t_ms'] - q['t_ms'], 3),
           'replies_to_second': [(round(s['t_ms'] - q2['t_ms'], 3), [a[0] for a in s.get('an', [])]) for s in mine]}
    if not exp:
        return
    if not mine:
        raise Violation('legacy-port query got no unicast reply (same bytes as a query from another source shortly before)', det,
                        tag='legacy-twin-no-reply')
    s = mine[0]
    if abs(s['t_ms'] - q2['t_ms']) > EPS:
        raise Violation('unicast reply to the second legacy source was not sent at once', det, tag='legacy-twin-late')
    if s['sock'] != q2['sock']:
        raise Violation('unicast reply not sent through the receiving socket', det, tag='uc-socket')
    if s['msg'] is None or not s['response'] or s['msg']['id'] != q2['id']:
        raise Violation('unicast reply to the second legacy source is malformed or does not echo the id', det, tag='legacy-twin-id')
    qd = s['msg']['qd']
    if len(qd) != len(q2['questions']) or not all(_names_equal_exact(a, b) for a, b in zip(qd, q2['questions'])):
        raise Violation('legacy unicast reply does not echo the questions', det, tag='legacy-questions')
    got = {ident for ident, _, _ in s['an']}
    missing = [i for i in exp if i not in got and i not in dont_care]
    extra = [i for i in got if i not in exp and i not in dont_care]
    if missing or extra:
        raise Violation('legacy unicast reply does not carry exactly the expected answers', dict(det, missing=missing, extra=extra),
                        tag='legacy-answers')


def check_multicast_format(run: respsim.RespRun) -> None:
    host = run.host
    sender_socks = {e.sock.fileno(): ('v6' if e.sock.family == 10 else 'v4') for e in host.endpoints
                    if e.sock.role in ('respond', 'both')}
    groups: Dict[Tuple[float, bytes], Set[int]] = {}
    for s in run.sends:
        if not s['mc']:
            continue
        det = {'t_ms': round(s['t_ms'] - run.t_settled_ms, 3), 'dst': s['dst'], 'sock': s['sock']}
        want_dst = sim.MDNS6 if s['family'] == 'v6' else sim.MDNS4
        if s['dst'] != want_dst or s['port'] != 5353:
            raise Violation('multicast sent to the wrong group/port for the socket family', det, tag='mc-destination')
        if s['sock'] not in sender_socks:
            raise Violation('multicast sent through a socket that is not a send socket', det, tag='mc-socket')
        m = s['msg']
        if m is None:
            raise Violation('host multicast an undecodable datagram', det, tag='mc-malformed')
        groups.setdefault((s['t_ms'], s['data']), set()).add(s['sock'])
        if not s['response']:
            continue
        if m['id'] != 0:
            raise Violation('multicast response with non-zero id', dict(det, id=m['id']), tag='mc-id')
        if m['flags'] != 0x8400:
            raise Violation('multicast response flags are not exactly QR|AA', dict(det, flags=hex(m['flags'])), tag='mc-flags')
        if m['qd']:
            raise Violation('multicast response carries a question section', det, tag='mc-questions')
        for ident, ttl, flush in s['an'] + s['ar']:
            if ident is None:
                continue
            if (ident[0] == 'PTR') == flush:
                raise Violation('cache-flush bit not exactly on the unique (non-PTR) records', dict(det, record=ident, flush=flush),
                                tag='mc-flush-bit')
    for (t, data), socks in groups.items():
        if socks != set(sender_socks):
            raise Violation('multicast message was not sent on every send socket',
                            {'t_ms': round(t - run.t_settled_ms, 3), 'socks': sorted(socks), 'all': sorted(sender_socks)},
                            tag='mc-all-sockets')


def known_signature(case: Any, v: Violation):
    """F12: the offending records are all AAAA and the host has an IPv6 socket (scope id on received records)."""
    d = v.details if isinstance(v.details, dict) else {}
    recs = (d.get('missing') or []) + (d.get('extra') or []) + (d.get('records') or [])
    if case.get('socks') in ('v6', 'dual') and recs and all(r[0] == 'AAAA' for r in recs):
        return 'F12-aaaa-scope-id'
    return None


def _judge(run: respsim.RespRun, case: Dict[str, Any], q: Dict[str, Any], g_cap: Any, skip_dst: Any) -> Dict[str, Any]:
    """routing rules for one query; sends with a sequence number >= g_cap and unicasts to skip_dst belong to another query"""
    exp, dont_care, allowed, _ = q['exp']
    t_q = q['t_ms']
    after = [s for s in run.sends if s['g'] > q['g'] and s['t_ms'] <= t_q + 1500 and (g_cap is None or s['g'] < g_cap)]
    unicast = [s for s in after if not s['mc'] and (skip_dst is None or (s['dst'], s['port']) != skip_dst)]
    mresp = [s for s in after if s['mc'] and s.get('response')]
    det: Dict[str, Any] = {'questions': q['questions'], 'known': q['known'], 'probe': q['probe'], 'src': q['src'],
                           'sock': q['sock'], 'unicast': [(s['dst'], s['port'], s['sock'], [a[0] for a in s.get('an', [])]) for s in unicast],
                           'multicast': [(round(s['t_ms'] - t_q, 2), [a[0] for a in s.get('an', [])]) for s in mresp]}
    asked_qu: Set[Tuple] = set()
    asked_qm: Set[Tuple] = set()
    for (n, t, qu), e in zip(q['questions'], q['per_question']):
        (asked_qu if qu else asked_qm).update(i for i in e if i in exp)

    v6_host = case['socks'] in ('v6', 'dual')
    f12_excluded = 0

    def recency(ident: Tuple) -> Any:
        nonlocal f12_excluded
        if ident[0] == 'AAAA' and v6_host:
            f12_excluded += 1
            return None      # open finding F12 (scope id on received AAAA records): excluded by construction
        s = run.last_sighting(ident, q['g'])
        if s is None:
            return False
        recent = s[0] + 250.0 * s[1] > t_q
        if ident[0] == 'PTR' and exp.get(ident, 4500) < 1125:
            cfg_recent = s[0] + 250.0 * exp[ident] > t_q
            if cfg_recent != recent:
                return None      # don't care zone between a quarter of the configured and of the floored TTL
        return recent

    rec = {i: recency(i) for i in exp}
    mc_now = set()
    mc_any = set()
    for s in mresp:
        for ident, ttl, flush in s['an']:
            mc_any.add(ident)
            if abs(s['t_ms'] - t_q) <= EPS:
                mc_now.add(ident)
    for s in unicast:
        dst4 = s['dst'][7:] if s['dst'].startswith('::ffff:') else s['dst']
        if (s['dst'], s['port']) != (q['src'][0], q['src'][1]):
            raise Violation('unicast reply sent to an address/port other than the query source', det, tag='uc-destination')
        if s['sock'] != q['sock']:
            raise Violation('unicast reply not sent through the receiving socket', det, tag='uc-socket')
        if (':' in s['dst']) != (s['family'] == 'v6'):
            raise Violation('unicast reply sent through a socket of the other address family', det, tag='uc-family')
        if s['msg'] is None or not s['response']:
            raise Violation('unicast reply is not a well-formed response', det, tag='uc-malformed')
        if s['msg']['id'] != q['id']:
            raise Violation('unicast reply does not echo the query id', dict(det, id=s['msg']['id'], want=q['id']), tag='uc-id')
        if any(fl for _, _, fl in s['an'] + s['ar']):
            raise Violation('unicast reply carries a cache-flush bit', det, tag='uc-flush-bit')
        if abs(s['t_ms'] - t_q) > EPS:
            raise Violation('unicast reply was not sent at once', det, tag='uc-late')
    uc_answers = {ident for s in unicast for ident, _, _ in s['an']}
    if q['legacy']:
        if not exp and not unicast:
            pass
        else:
            if exp and not unicast:
                raise Violation('legacy-port query got no unicast reply', det, tag='legacy-no-reply')
            first = unicast[0]['msg'] if unicast else None
            if first is not None:
                qd = first['qd']
                if len(qd) != len(q['questions']) or not all(_names_equal_exact(a, b) for a, b in zip(qd, q['questions'])):
                    raise Violation('legacy unicast reply does not echo the questions', det, tag='legacy-questions')
            missing = [i for i in exp if i not in uc_answers and i not in dont_care]
            extra = [i for i in uc_answers if i not in exp and i not in dont_care]
            if missing or extra:
                raise Violation('legacy unicast reply does not carry exactly the expected answers',
                                dict(det, missing=missing, extra=extra), tag='legacy-answers')
            t_lim = t_q + 1300 + EPS
            late = [i for i in exp if i not in dont_care and not any(
                i == a[0] for s in mresp if s['t_ms'] <= t_lim for a in s['an'])]
            if late:
                raise Violation('legacy-port query: records not multicast in addition to the unicast reply',
                                dict(det, missing=late), tag='legacy-no-multicast')
    else:
        if any(s['msg']['qd'] for s in unicast):
            raise Violation('unicast reply to a port-5353 query echoes questions', det, tag='uc-questions')
        want_uc = {i for i in exp if i in asked_qu and (q['probe'] or rec[i] is True)}
        maybe_uc = {i for i in exp if i in asked_qu and rec[i] is None} | dont_care
        must_now = {i for i in exp if (i in asked_qu and rec[i] is False) or (q['probe'] and i in asked_qm)}
        missing = [i for i in want_uc if i not in uc_answers and i not in dont_care]
        extra = [i for i in uc_answers if i not in want_uc and i not in maybe_uc]
        if missing:
            raise Violation('QU question: recently-multicast record (or probe answer) not answered by unicast',
                            dict(det, missing=missing, recency={str(k): v for k, v in rec.items()}), tag='qu-unicast-missing')
        if extra:
            raise Violation('record sent by unicast although it was asked QM only or was not recently multicast',
                            dict(det, extra=extra, recency={str(k): v for k, v in rec.items()}), tag='unicast-extra')
        slow = [i for i in must_now if i not in mc_now and i not in dont_care]
        if slow:
            raise Violation('record that must be multicast at once (QU and not recently multicast, or probe) was not',
                            dict(det, missing=slow, recency={str(k): v for k, v in rec.items()}), tag='multicast-now-missing')
        quiet = [i for i in exp if i in asked_qu and i not in asked_qm and rec[i] is True and not q['probe'] and i in mc_any]
        if quiet:
            raise Violation('QU question for a recently-multicast record was answered by multicast as well',
                            dict(det, records=quiet), tag='qu-multicast-extra')
    return {'exp': exp, 'rec': rec, 'asked_qu': asked_qu, 'asked_qm': asked_qm, 'f12': f12_excluded, 'det': det}


def check(case: Dict[str, Any]) -> Dict[str, Any]:
    case = dict(case, exclude_f12=True)
    run = respsim.RespRun(case)
    run.execute()
    if run.errors:
        raise Violation('exception reached the event loop: ' + str(run.errors[0].get('exception')), run.errors[:2],
                        tag='loop-exception')
    check_multicast_format(run)
    q = [x for x in run.queries if x['ev'].get('main')][0]
    twins = [x for x in run.queries if x['ev'].get('twin')]
    if twins and q['legacy']:
        check_twin(run, twins[0], q)
        res = _judge(run, case, q, None, (twins[0]['src'][0], twins[0]['src'][1]))
    elif twins:
        # the same bytes from another host on port 5353 (a QU question lets them through the duplicate guard): both are judged,
        # each at its own arrival time
        res = _judge(run, case, q, twins[0]['g'], (twins[0]['src'][0], twins[0]['src'][1]))
        res2 = _judge(run, case, twins[0], None, (q['src'][0], q['src'][1]))
        res['f12'] += res2['f12']
    else:
        res = _judge(run, case, q, None, None)
    exp, rec, asked_qu, asked_qm, det = res['exp'], res['rec'], res['asked_qu'], res['asked_qm'], res['det']
    f12_excluded = run.excluded_f12 + res['f12']
    # classes
    n_socks = len(run.host.endpoints)
    mixed = bool(asked_qu and asked_qm)
    both_sides = len({v for i, v in rec.items() if i in asked_qu and v is not None}) == 2
    classes = ['legacy' if q['legacy'] else 'port5353', 'probe' if q['probe'] else 'non-probe', 'socks-' + case['socks']]
    if mixed:
        classes.append('mixed-QU-QM')
    if both_sides:
        classes.append('both-sides-of-quarter')
    if 'quarter' in q['ev']:
        classes.append('quarter-grid')
    if exp:
        classes.append('has-expected-answers')
    if any(x['ev'].get('tc_hold') for x in run.queries):
        classes.append('legacy-query-while-a-truncated-query-from-the-same-address-is-held')
    if twins:
        classes.append('same-bytes-from-a-second-legacy-source' if q['legacy'] else 'same-QU-query-bytes-from-a-second-host')
        if not q['legacy'] and any(v is not None and res2['rec'].get(i) is not None and v != res2['rec'][i] for i, v in rec.items()):
            classes.append('quarter-TTL-moment-between-the-two-copies')
    if any(v is None for v in rec.values()):
        classes.append('ptr-floor-dont-care')
    if f12_excluded:
        classes.append('excluded-known-F12')
    return {'nontrivial': bool(exp) and (mixed or both_sides or n_socks > 1), 'classes': classes,
            'excluded': {'F12-aaaa-scope-id': f12_excluded} if f12_excluded else {},
            'max': {'expected': len(exp), 'sends': len(run.sends)}, 'sample': {'case': case, 'replies': det}}
