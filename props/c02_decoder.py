"""C02 - Decoder is total, bounded and faithful on arbitrary datagrams."""
from __future__ import annotations

import os
import random
import struct
from typing import Any, Dict, Iterator, List, Optional

from hypothesis import strategies as st

from vlib import gen, msgcase, wire
from vlib.core import Violation, ddmin
from vlib.meter import BudgetExceeded, WorkMeter, code_objects_of

ID = 'C02'
LEVEL = 'exploration'
RULE = ('Inputs from four sources: PRNG-expanded uniform bytes; structure-aware mutations (bit flips, truncation, insertion, '
        'count/rdlength/label-length overwrites, slice duplication) of valid messages rendered by the independent encoder in '
        'three compression styles; a grammar of compression graphs (forward/backward pointer chains up to 4400 hops, cycles, '
        'self/forward/header/rdata/beyond-end references, fan-in onto long label chains, names of 200-1000 characters carried in rdata / owner / question position and referred to again by bare pointers, suffix pointers and label+pointer; legal responses with hundreds of distinct compression targets); and every string over '
        '{00,01,3f,40,c0,0c,ff} up to a bounded length after two fixed headers (exhaustive block). Oracle: no exception, work '
        '(lines executed and Python calls inside zeroconf._protocol.incoming/_dns, counted with sys.monitoring) within a frozen '
        'budget, names <= 253 chars when valid, and equality with the strict independent decoder whenever that accepts and all '
        'types are supported. Non-trivial = distinct inputs that contain >= 1 compression pointer and are either accepted by the '
        'strict decoder or rejected/partially decoded by the library.')
ASSUMPTIONS = [
    'strict decoder (vlib/wire.py) bounds names at 253 characters like the properties do (RFC 1035 allows one more octet); '
    'the 254-character corner creates no obligation either way',
    'work budget frozen at build time: 12.5M executed lines / 330k Python calls per datagram '
    '(4x the largest counts the adversarial grammar reached on the repaired tree: 3.1M lines, 82k calls)',
    'exhaustive block covers only the stated small alphabet and length bound',
]
EXHAUSTIVE = False
BUDGET = {'quick': {'examples': 6000}, 'thorough': {'examples': 60000, 'shards': 16}}

MAX_LINES = 12_500_000
MAX_CALLS = 330_000
ALPHABET = [0x00, 0x01, 0x3F, 0x40, 0xC0, 0x0C, 0xFF]
ENUM_LEN = {'quick': 5, 'thorough': 7}

_meter: Optional[WorkMeter] = None


def meter() -> WorkMeter:
    global _meter
    if _meter is None:
        import zeroconf._dns as zdns
        import zeroconf._protocol.incoming as zinc

        _meter = WorkMeter(code_objects_of(zinc, zdns), MAX_LINES, MAX_CALLS)
        _meter.install()
    return _meter


# ---------------------------------------------------------------------------------------------
# oracle (shared by Hypothesis, the exhaustive block and the atheris target)

_OTHER: Optional[bytes] = None


def _other_datagram() -> bytes:
    """a well-formed query with known answers whose names sit at the usual offsets (question name at 12, compressed owners)"""
    global _OTHER
    if _OTHER is None:
        t = wire.labels_of('_bravo._udp.local.')
        inst = wire.labels_of('other thing._bravo._udp.local.')
        _OTHER = wire.encode({'id': 0, 'flags': 0, 'qd': [{'name': t, 'type': 12, 'cls': 1}, {'name': inst, 'type': 33, 'cls': 1}],
                              'an': [{'name': t, 'type': 12, 'cls': 1, 'ttl': 4500, 'rd': {'target': inst}},
                                     {'name': inst, 'type': 33, 'cls': 1, 'ttl': 120,
                                      'rd': {'prio': 0, 'weight': 0, 'port': 9, 'target': wire.labels_of('otherhost.local.')}}],
                              'ns': [], 'ar': []})
    return _OTHER


def oracle(data: bytes, scope: Optional[int] = None) -> Dict[str, Any]:
    from zeroconf import DNSIncoming

    m = meter()
    m.reset()
    try:
        inc = DNSIncoming(data, ('10.9.8.7', 5353), scope, 12345.0)
        # a datagram is not always read at once (a truncated query is held for 400-500 ms and its known answers are read when the
        # timer fires): another datagram is decoded in between, and that one's names must not show up in this one's records
        l0, c0 = m.lines, m.calls
        DNSIncoming(_other_datagram(), ('10.9.8.6', 5353), None, 12345.0).answers()
        m.lines, m.calls = l0, c0               # (its work is not this datagram's)
        recs = inc.answers()
        qs = inc.questions
        inc.is_query()
        inc.has_qu_question()
        inc.is_probe()
        valid = inc.valid
    except BudgetExceeded as e:
        raise Violation(f'bounded: decode work exceeds the fixed budget ({e})', {'len': len(data)}, tag='budget')
    except BaseException as e:  # noqa  (RecursionError, MemoryError, ... all count)
        if isinstance(e, (KeyboardInterrupt, SystemExit)):
            raise
        raise Violation(f'total: decoder raised {type(e).__name__}', {'len': len(data), 'exc': repr(e)[:200]},
                        tag='raised-' + type(e).__name__)
    lines, calls = m.lines, m.calls
    # sane
    if valid:
        for q in qs:
            if len(q.name) > 253:
                raise Violation('sane: question name longer than 253 characters', {'len': len(q.name)}, tag='sane-name')
        for r in recs:
            for attr in ('name', 'alias', 'server', 'next_name'):
                v = getattr(r, attr, None)
                if isinstance(v, str) and len(v) > 253:
                    raise Violation(f'sane: record {attr} longer than 253 characters', {'len': len(v)}, tag='sane-name')
    # faithful
    accepted = False
    supported = False
    pointers = 0
    try:
        sm = wire.strict_decode(data)
        accepted = True
        pointers = sm['_pointers']
    except wire.Reject:
        sm = None
    if sm is not None:
        rrs = sm['an'] + sm['ns'] + sm['ar']
        supported = all(r['type'] in wire.SUPPORTED for r in rrs)
        if supported:
            if not valid:
                raise Violation('faithful: strict decoder accepts, library marks the datagram invalid',
                                {'questions': len(sm['qd']), 'records': len(rrs)}, tag='faithful-invalid')
            eq = [msgcase.wire_to_text(q) for q in sm['qd']]
            gq = [{'name': q.name, 'type': q.type, 'cls': q.class_ | (0x8000 if q.unique else 0)} for q in qs]
            if eq != gq:
                raise Violation('faithful: questions differ from the strict decoder', {'expected': eq[:3], 'got': gq[:3]},
                                tag='faithful-questions')
            er = [msgcase.wire_to_text(r) for r in rrs]
            gr = [msgcase.lib_record_to_wire(r) for r in recs]
            if len(er) != len(gr):
                raise Violation(f'faithful: library returned {len(gr)} records, strict decoder {len(er)}',
                                {'expected_n': len(er), 'got_n': len(gr)}, tag='faithful-count')
            for i, (a, b) in enumerate(zip(er, gr)):
                if a != b:
                    raise Violation(f'faithful: record {i} differs', {'expected': a, 'got': b}, tag='faithful-record')
            for r in recs:
                if r.type == 28 and r.scope_id != scope:
                    raise Violation('faithful: AAAA record does not carry the receiving scope id',
                                    {'scope': scope, 'got': r.scope_id}, tag='faithful-scope')
            if (inc.num_questions, inc.num_answers, inc.num_authorities, inc.num_additionals) != (
                    len(sm['qd']), len(sm['an']), len(sm['ns']), len(sm['ar'])):
                raise Violation('faithful: header counts differ', None, tag='faithful-header')
            if inc.id != sm['id'] or inc.flags != sm['flags']:
                raise Violation('faithful: id/flags differ', None, tag='faithful-header')
    has_ptr = pointers > 0 or _has_pointer_byte(data)
    return {'valid': bool(valid), 'accepted': accepted, 'supported': supported, 'pointers': pointers,
            'lines': lines, 'calls': calls, 'has_ptr': has_ptr, 'n_recs': len(recs)}


def _has_pointer_byte(data: bytes) -> bool:
    return any(b >= 0xC0 for b in data[12:])


# ---------------------------------------------------------------------------------------------
# case -> bytes

def _encode_msg(case: Dict[str, Any]):
    mc = True
    m = {'id': case.get('id', 0), 'flags': case.get('flags', 0),
         'qd': [msgcase.to_wire_q(q, mc) for q in case.get('q', [])],
         'an': [], 'ns': [], 'ar': []}
    for s in ('an', 'ns', 'ar'):
        for r in case.get(s, []):
            if r['k'] == 'RAW':
                m[s].append({'name': wire.labels_of(r['name']), 'type': r['type'], 'cls': r['cls'], 'ttl': r['ttl'],
                             'rd': {'raw': bytes.fromhex(r['raw'])}})
            else:
                m[s].append(msgcase.to_wire_rr(r, mc))
    e = wire.Encoder(case.get('compress', 'auto'))
    for q in m['qd']:
        e.question(q)
    for s in ('an', 'ns', 'ar'):
        for r in m[s]:
            e.rr(r)
    data = e.finish(m['id'], m['flags'], (len(m['qd']), len(m['an']), len(m['ns']), len(m['ar'])))
    return data, e


def _apply_mutations(data: bytes, enc, muts: List[List[Any]]) -> bytes:
    b = bytearray(data)
    for mu in muts:
        op = mu[0]
        n = len(b)
        if n == 0:
            break
        if op == 'flip':
            b[(mu[1] * n) // 1001 % n] ^= 1 << (mu[2] % 8)
        elif op == 'set':
            b[(mu[1] * n) // 1001 % n] = mu[2] & 0xFF
        elif op == 'trunc':
            del b[(mu[1] * n) // 1001:]
        elif op == 'ins':
            pos = (mu[1] * n) // 1001
            b[pos:pos] = bytes.fromhex(mu[2])
        elif op == 'dup':
            a0 = (mu[1] * n) // 1001
            a1 = min(n, a0 + mu[2])
            pos = (mu[3] * n) // 1001
            b[pos:pos] = b[a0:a1]
        elif op == 'count':
            if n >= 12:
                struct.pack_into('>H', b, 4 + 2 * (mu[1] % 4), mu[2] & 0xFFFF)
        elif op == 'lenbyte':
            if enc.len_positions:
                pos = enc.len_positions[mu[1] % len(enc.len_positions)]
                if pos < n:
                    b[pos] = mu[2] & 0xFF
        elif op == 'rdlen':
            if enc.rdlen_positions:
                pos = enc.rdlen_positions[mu[1] % len(enc.rdlen_positions)]
                if pos + 2 <= n:
                    struct.pack_into('>H', b, pos, mu[2] & 0xFFFF)
        elif op == 'ptrto':
            # redirect an existing length/pointer byte into a pointer to a chosen offset
            if enc.len_positions:
                pos = enc.len_positions[mu[1] % len(enc.len_positions)]
                if pos + 2 <= n:
                    tgt = (mu[2] * n) // 1001
                    b[pos] = 0xC0 | ((tgt >> 8) & 0x3F)
                    b[pos + 1] = tgt & 0xFF
    return bytes(b[:9200])


def _graph_bytes(g: Dict[str, Any]) -> bytes:
    """Adversarial compression graphs. All offsets are computed here (two bytes per pointer)."""
    kind = g['kind']
    if kind == 'chain':
        # a TXT answer whose opaque rdata holds a chain of pointers; a question name (or a PTR record's
        # rdata) points at its entry
        n, lab, direction, terminal = g['n'], g['lab'], g['dir'], g['terminal']
        unit = 2 + (1 + lab if lab else 0)
        refs = g.get('refs', 0)
        n = max(1, min(n, (8966 - 60 - 13 * refs) // unit))
        in_q = g.get('where', 'question') == 'question'
        owner = 18 if in_q else 12          # offset of the TXT record's root owner name
        region = owner + 11                 # start of its rdata
        body = bytearray()
        offs = [region + i * unit for i in range(n)]
        for i in range(n):
            if lab:
                body += bytes([lab]) + bytes([0x61 + (i % 26)]) * lab
            if direction == 'fwd':
                nxt = offs[i + 1] if i + 1 < n else None
            else:
                nxt = offs[i - 1] if i > 0 else None
            if nxt is None:
                if terminal == 'root':
                    tgt = owner
                elif terminal == 'cycle':
                    tgt = offs[n // 2]
                elif terminal == 'self':
                    tgt = offs[i] + (1 + lab if lab else 0)
                elif terminal == 'beyond':
                    tgt = 0x3FFF
                else:  # 'header'
                    tgt = 2
            else:
                tgt = nxt
            body += bytes([0xC0 | (tgt >> 8), tgt & 0xFF])
        entry = offs[0] if direction == 'fwd' else offs[-1]
        eptr = bytes([0xC0 | (entry >> 8), entry & 0xFF])
        txt = b'\0' + struct.pack('>HHLH', 16, 1, 120, len(body)) + bytes(body)
        ptr_rr = b'\0' + struct.pack('>HHLH', 12, 1, 120, 2) + eptr
        if in_q:
            return (struct.pack('>6H', 0, 0, 1, 1 + refs, 0, 0) + eptr + struct.pack('>HH', g.get('qtype', 12), 1)
                    + txt + ptr_rr * refs)
        return struct.pack('>6H', 0, 0x8400, 0, 2 + refs, 0, 0) + txt + ptr_rr * (1 + refs)
    if kind == 'fanin':
        # one long chain of labels; K PTR records whose rdata points at distinct offsets inside it
        L, K, lab = g['labels'], g['refs'], max(1, g['lab'])
        unit = 1 + lab
        L = max(1, min(L, 7000 // unit))
        K = max(1, min(K, (8966 - 40 - L * unit) // 13))
        chain = b''.join(bytes([lab]) + bytes([0x61 + (i % 26)]) * lab for i in range(L)) + b'\0'
        base = 12 + 1 + 10   # first record: owner root, TXT with the chain as opaque rdata
        out = bytearray(struct.pack('>6H', 0, 0x8400, 0, K + 1, 0, 0))
        out += b'\0' + struct.pack('>HHLH', 16, 1, 120, len(chain)) + chain
        rnd = random.Random(g.get('seed', 0))
        for i in range(K):
            if g.get('spread', True):
                idx = (i * L) // K
            else:
                idx = rnd.randrange(L)
            tgt = base + idx * unit
            out += b'\0' + struct.pack('>HHLH', 12, 1, 120, 2) + bytes([0xC0 | (tgt >> 8), tgt & 0xFF])
        return bytes(out)
    if kind == 'nodes':
        # explicit small graphs: each node is a question name; pointers refer to node indices or specials
        nodes = g['nodes']
        # first pass: sizes
        sizes = []
        for nd in nodes:
            s = sum(1 + len(bytes.fromhex(l)) for l in nd['labels']) + (1 if nd['end'] == 'root' else 2) + 4
            sizes.append(s)
        starts = []
        off = 12
        for s in sizes:
            starts.append(off)
            off += s
        total = off
        out = bytearray(struct.pack('>6H', g.get('id', 0), g.get('flags', 0), len(nodes), 0, 0, 0))
        for i, nd in enumerate(nodes):
            for l in nd['labels']:
                lb = bytes.fromhex(l)
                out += bytes([nd.get('lenbyte', len(lb)) if nd.get('lenbyte') is not None else len(lb)]) + lb
            if nd['end'] == 'root':
                out.append(0)
            else:
                to = nd['to']
                if to == 'self':
                    tgt = len(out)
                elif to == 'hdr':
                    tgt = nd.get('abs', 0) % 12
                elif to == 'beyond':
                    tgt = total + nd.get('abs', 0) % 64
                elif to == 'end':
                    tgt = total
                elif to == 'mid':
                    tgt = starts[nd.get('abs', 0) % len(nodes)] + 1
                else:
                    tgt = starts[int(to) % len(nodes)]
                out += bytes([0xC0 | ((tgt >> 8) & 0x3F), tgt & 0xFF])
            out += struct.pack('>HH', nd.get('qtype', 12), nd.get('qcls', 1))
        return bytes(out)
    if kind == 'manytargets':
        # a perfectly legal response: a few long names (many short labels each) and then one record per label of those names whose
        # owner (or PTR rdata) is a fresh label followed by a backward pointer to that label - hundreds of distinct compression
        # targets in one datagram, every name short and one hop deep
        out = bytearray(12)
        targets: List[int] = []
        n_an = 0
        for k in range(g['names']):
            start = len(out)
            off = start
            for i in range(g['labels']):
                targets.append(off)
                lab = bytes([0x61 + (i + k) % 26]) * g['lab']
                out += bytes([len(lab)]) + lab
                off += 1 + len(lab)
            out += b'\x05local\0'
            out += struct.pack('>HHLH', 1, 1, 120, 4) + bytes([10, 0, k, 1])
            n_an += 1
        step = max(1, g.get('step', 1))
        for j, tgt in enumerate(targets[::step][:g['refs']]):
            nm = bytes([1, 0x30 + j % 10]) + bytes([0xC0 | (tgt >> 8), tgt & 0xFF])
            if g['via'] == 'owner' or (g['via'] == 'mixed' and j % 2):
                out += nm + struct.pack('>HHLH', 1, 1, 120, 4) + bytes([10, 1, j >> 8, j & 0xFF])
            else:
                out += b'\x01p\x05local\0' + struct.pack('>HHLH', 12, 1, 120, len(nm)) + nm
            n_an += 1
            if len(out) > 8900:
                break
        struct.pack_into('>6H', out, 0, 0, 0x8400, 0, n_an, 0, 0)
        return bytes(out[:8966])
    if kind == 'longname':
        # a name whose text form has `total` characters (labels <= 63 bytes each), carried in the rdata of a PTR/SRV/NSEC record,
        # as the owner of an A record or as a question name; later records refer to it: by a bare pointer to its start, by a
        # pointer to one of its later labels (a shorter, possibly legal suffix) or by a label followed by a pointer (longer still).
        # An over-long name must not come back through any of these doors either.
        total, carrier = g['total'], g['carrier']
        sizes: List[int] = []
        left = total
        while left > 0:
            n = min(g.get('lab', 63), left - 1)
            if n <= 0:
                break
            sizes.append(n)
            left -= n + 1
        name = b''.join(bytes([n]) + bytes([0x61 + (i % 26)]) * n for i, n in enumerate(sizes)) + b'\0'
        out = bytearray(12)
        nq = 0
        label_offs: List[int] = []

        def put_name_here() -> None:
            base = len(out)
            off = base
            for n in sizes:
                label_offs.append(off)
                off += 1 + n
            out.extend(name)

        owner = b'\x01c\x05local\0'
        if carrier == 'question':
            put_name_here()
            out += struct.pack('>HH', 12, 1)
            nq = 1
            n_an = 0
        else:
            n_an = 1
            if carrier == 'owner':
                put_name_here()
                out += struct.pack('>HHLH', 1, 1, 120, 4) + b'\x0a\0\0\x01'
            elif carrier == 'PTR':
                out += owner + struct.pack('>HHLH', 12, 1, 120, len(name))
                put_name_here()
            elif carrier == 'SRV':
                out += owner + struct.pack('>HHLH', 33, 1, 120, 6 + len(name)) + struct.pack('>HHH', 0, 0, 80)
                put_name_here()
            else:  # NSEC
                out += owner + struct.pack('>HHLH', 47, 1, 120, len(name) + 3)
                put_name_here()
                out += b'\x00\x01\x40'
        for ref in g['refs']:
            where, skip, prefix = ref
            tgt = label_offs[skip % len(label_offs)] if label_offs else 12
            nm = (b'\x02zz' if prefix else b'') + bytes([0xC0 | (tgt >> 8), tgt & 0xFF])
            if where == 'owner-a':
                out += nm + struct.pack('>HHLH', 1, 1, 120, 4) + b'\x0a\0\0\x02'
            elif where == 'owner-txt':
                out += nm + struct.pack('>HHLH', 16, 1, 120, 1) + b'\0'
            elif where == 'ptr-rdata':
                out += owner + struct.pack('>HHLH', 12, 1, 120, len(nm)) + nm
            elif where == 'srv-rdata':
                out += owner + struct.pack('>HHLH', 33, 1, 120, 6 + len(nm)) + struct.pack('>HHH', 0, 0, 80) + nm
            else:  # nsec-rdata
                out += owner + struct.pack('>HHLH', 47, 1, 120, len(nm) + 3) + nm + b'\x00\x01\x40'
            n_an += 1
        struct.pack_into('>6H', out, 0, 0, 0x8400 if not nq else 0, nq, n_an, 0, 0)
        return bytes(out)
    raise ValueError(kind)


def materialise(case: Dict[str, Any]) -> bytes:
    src = case['src']
    if src == 'hex':
        return bytes.fromhex(case['data'])
    if src == 'rand':
        rnd = random.Random(case['seed'])
        n = case['len']
        body = bytes(rnd.getrandbits(8) for _ in range(n))
        if case.get('hdr') == 'sane' and n >= 12:
            counts = [rnd.choice([0, 0, 1, 1, 2, 3]) for _ in range(4)]
            body = struct.pack('>6H', rnd.getrandbits(16), rnd.choice([0, 0x8400, 0x0200, 0x8000]), *counts) + body[12:]
        return body
    if src == 'msg':
        data, enc = _encode_msg(case)
        return _apply_mutations(data, enc, case.get('mut', []))
    if src == 'graph':
        return _graph_bytes(case['g'])
    if src == 'enum':
        return bytes.fromhex(case['hdr']) + bytes(case['tail'])
    raise ValueError(src)


# ---------------------------------------------------------------------------------------------
# strategies

@st.composite
def raw_record(draw, names):
    return {'k': 'RAW', 'name': draw(st.sampled_from(names)), 'type': draw(st.sampled_from([2, 6, 10, 15, 99, 41, 65535])),
            'cls': draw(st.sampled_from([1, 0x8001, 255])), 'ttl': draw(gen.ttl_st),
            'raw': draw(st.binary(max_size=24)).hex()}


@st.composite
def msg_case(draw, mutate: bool) -> Dict[str, Any]:
    names = draw(gen.name_pool(max_size=5, max_label=63, long_names=True))
    rec = st.one_of(gen.record(names, max_rdata=40), gen.record(names, max_rdata=40), raw_record(names)) \
        if draw(st.booleans()) else gen.record(names, max_rdata=40)
    case: Dict[str, Any] = {
        'src': 'msg',
        'id': draw(st.sampled_from([0, 7, 0xFFFF])),
        'flags': draw(st.sampled_from([0, 0x8400, 0x8000, 0x0200, 0x8600, 0xFFFF])),
        'compress': draw(st.sampled_from(['auto', 'auto', 'none', 'chainy', 'chainy'])),
        'q': draw(st.lists(gen.question(names), max_size=3)),
        'an': draw(st.lists(rec, max_size=5)),
        'ns': draw(st.lists(rec, max_size=2)),
        'ar': draw(st.lists(rec, max_size=3)),
        'scope': draw(st.sampled_from([None, None, 3])),
        'mut': [],
    }
    if mutate:
        pm = st.integers(0, 1000)
        op = st.one_of(
            st.tuples(st.just('flip'), pm, st.integers(0, 7)),
            st.tuples(st.just('set'), pm, st.sampled_from([0, 1, 0x3F, 0x40, 0x7F, 0xBF, 0xC0, 0xC1, 0xFF, 12])),
            st.tuples(st.just('trunc'), pm),
            st.tuples(st.just('ins'), pm, st.binary(min_size=1, max_size=6).map(bytes.hex)),
            st.tuples(st.just('dup'), pm, st.integers(1, 40), pm),
            st.tuples(st.just('count'), st.integers(0, 3), st.sampled_from([0, 1, 2, 3, 255, 256, 65535])),
            st.tuples(st.just('lenbyte'), st.integers(0, 200), st.sampled_from([0, 1, 0x3F, 0x40, 0x7F, 0xBF, 0xC0, 0xFF])),
            st.tuples(st.just('rdlen'), st.integers(0, 50), st.sampled_from([0, 1, 3, 4, 5, 15, 16, 17, 255, 65535])),
            st.tuples(st.just('ptrto'), st.integers(0, 200), pm),
        )
        case['mut'] = [list(x) for x in draw(st.lists(op, min_size=1, max_size=4))]
    return case


@st.composite
def graph_case(draw) -> Dict[str, Any]:
    which = draw(st.sampled_from(['chain', 'chain', 'chain', 'fanin', 'fanin', 'nodes', 'nodes', 'longname', 'longname', 'manytargets']))
    if which == 'manytargets':
        g = {'kind': 'manytargets', 'names': draw(st.sampled_from([1, 2, 3, 4])), 'labels': draw(st.sampled_from([20, 60, 64, 65, 100, 120])),
             'lab': draw(st.sampled_from([1, 1, 2])), 'refs': draw(st.sampled_from([10, 127, 128, 129, 130, 200, 400])),
             'step': draw(st.sampled_from([1, 1, 2])), 'via': draw(st.sampled_from(['owner', 'ptr-rdata', 'mixed']))}
        return {'src': 'graph', 'g': g}
    if which == 'longname':
        g = {'kind': 'longname', 'total': draw(st.one_of(st.sampled_from([200, 252, 253, 254, 255, 256, 257, 300, 320, 1000]), st.integers(240, 270))),
             'lab': draw(st.sampled_from([63, 63, 62, 31, 1])),
             'carrier': draw(st.sampled_from(['PTR', 'PTR', 'SRV', 'NSEC', 'owner', 'question'])),
             'refs': draw(st.lists(st.tuples(st.sampled_from(['owner-a', 'owner-txt', 'ptr-rdata', 'srv-rdata', 'nsec-rdata']),
                                             st.sampled_from([0, 0, 0, 1, 2, 3]), st.booleans()).map(list), min_size=1, max_size=4))}
        return {'src': 'graph', 'g': g}
    if which == 'chain':
        g = {'kind': 'chain',
             'n': draw(st.one_of(st.integers(1, 40), st.sampled_from([120, 127, 128, 129, 130, 250, 900, 990, 1000, 1100, 2200, 4400]))),
             'lab': draw(st.sampled_from([0, 0, 1, 1, 2, 20])),
             'dir': draw(st.sampled_from(['fwd', 'back'])),
             'terminal': draw(st.sampled_from(['root', 'root', 'cycle', 'self', 'beyond', 'header'])),
             'where': draw(st.sampled_from(['question', 'ptr-rdata'])),
             'refs': draw(st.sampled_from([0, 0, 0, 5, 100, 600])),
             'qtype': draw(st.sampled_from([12, 1, 255]))}
    elif which == 'fanin':
        g = {'kind': 'fanin', 'labels': draw(st.sampled_from([10, 100, 127, 128, 129, 500, 1500, 3000])),
             'refs': draw(st.sampled_from([1, 5, 50, 200, 500])), 'lab': draw(st.sampled_from([1, 1, 2, 5])),
             'spread': draw(st.booleans()), 'seed': draw(st.integers(0, 1000))}
    else:
        n = draw(st.integers(1, 6))
        nodes = []
        for i in range(n):
            labels = draw(st.lists(st.binary(min_size=1, max_size=draw(st.sampled_from([1, 3, 63]))).map(bytes.hex),
                                   max_size=3))
            end = draw(st.sampled_from(['root', 'ptr', 'ptr']))
            nd: Dict[str, Any] = {'labels': labels, 'end': end}
            if end == 'ptr':
                nd['to'] = draw(st.one_of(st.integers(0, n - 1).map(str),
                                          st.sampled_from(['self', 'hdr', 'beyond', 'end', 'mid'])))
                nd['abs'] = draw(st.integers(0, 63))
            if draw(st.integers(0, 9)) == 0:
                nd['lenbyte'] = draw(st.sampled_from([0x40, 0x7F, 0x80, 0xBF, 0x3F]))
            nd['qtype'] = draw(st.sampled_from([12, 1, 33, 255]))
            nd['qcls'] = draw(st.sampled_from([1, 0x8001]))
            nodes.append(nd)
        g = {'kind': 'nodes', 'nodes': nodes, 'flags': draw(st.sampled_from([0, 0x8400]))}
    return {'src': 'graph', 'g': g}


def strategy(tier: str):
    rand = st.builds(lambda n, s, h: {'src': 'rand', 'len': n, 'seed': s, 'hdr': h},
                     st.one_of(st.integers(0, 64), st.integers(0, 8966), st.sampled_from([11, 12, 13, 8965, 8966])),
                     st.integers(0, 2**32), st.sampled_from(['rand', 'sane', 'sane']))
    return st.one_of(rand, msg_case(False), msg_case(True), msg_case(True), msg_case(True), graph_case(), graph_case())


HEADERS = [
    struct.pack('>6H', 0, 0, 1, 0, 0, 0),          # one question follows
    struct.pack('>6H', 0, 0x8400, 0, 1, 0, 0),     # one answer follows
]


def enumerate_cases(tier: str, shard: int, nshards: int) -> Iterator[Dict[str, Any]]:
    """Every string over ALPHABET of length <= ENUM_LEN after each fixed header (sharded by index)."""
    import itertools

    maxlen = ENUM_LEN[tier]
    idx = 0
    for hdr in HEADERS:
        hx = hdr.hex()
        for ln in range(0, maxlen + 1):
            for tail in itertools.product(ALPHABET, repeat=ln):
                if idx % nshards == shard:
                    yield {'src': 'enum', 'hdr': hx, 'tail': list(tail)}
                idx += 1



def FLAKY_IS_VIOLATION(case: Any) -> bool:
    """This check is a pure function of the case (no clock, no threads, no randomness outside the case): when a violation is
    observed and the very same case passes on Hypothesis' re-run, the library has carried state from an earlier case into
    this one (a process-wide memo, a shared container) - on a correct tree the objects of one case cannot affect the next.
    What was seen stands."""
    return True


def known_signature(case: Any, v: Violation):
    return None


def check(case: Dict[str, Any]) -> Dict[str, Any]:
    data = materialise(case)
    if len(data) > 8966:
        data = data[:8966]
    info = oracle(data, case.get('scope'))
    src = case['src']
    if src == 'msg':
        src = 'mutated' if case.get('mut') else 'valid'
    if src == 'graph':
        src = 'graph-' + case['g']['kind']
    classes = [src, 'lib-valid' if info['valid'] else 'lib-invalid']
    if info['accepted']:
        classes.append('strict-accepted' + ('' if info['supported'] else '-unsupported-types'))
    if info['pointers'] >= 1 and info['accepted']:
        classes.append('accepted-with-pointers')
    nontrivial = bool((info['accepted'] and info['pointers'] >= 1) or
                      (info['has_ptr'] and src != 'rand' and (not info['valid'] or not info['accepted'])))
    return {'nontrivial': nontrivial, 'classes': classes,
            'max': {'lines': info['lines'], 'calls': info['calls'], 'len': len(data), 'strict_pointers': info['pointers']},
            'sample': {'case': case if src != 'enum' else {'hex': data.hex()}, 'len': len(data), 'valid': info['valid'],
                       'strict_accepts': info['accepted'], 'lines': info['lines']}}


def minimise(case: Dict[str, Any]) -> Dict[str, Any]:
    data = materialise(case)[:8966]
    scope = case.get('scope')
    try:
        oracle(data, scope)
        return case
    except Violation as v0:
        tag = v0.tag

    def fails(bs: List[int]) -> bool:
        try:
            oracle(bytes(bs), scope)
        except Violation as v:
            return v.tag == tag
        return False

    small = ddmin(list(data), fails, max_tests=600)
    return {'src': 'hex', 'data': bytes(small).hex(), 'scope': scope, 'from': case['src']}


# ---------------------------------------------------------------------------------------------
# coverage-guided stage (thorough tier): atheris / libFuzzer with the same oracle inside the target

def post_block(tier: str, seed: int):
    if tier != 'thorough':
        return None
    from vlib import fuzz

    res = fuzz.run_campaigns('C02', seed, runs=int(os.environ.get('VERIF_FUZZ_RUNS', '1500000')))
    vb = res.pop('violation_bytes', None) if res else None
    if vb:
        case = minimise({'src': 'hex', 'data': vb['data'][:8966].hex(), 'scope': None})
        try:
            check(case)
            res['coverage']['fuzz_note'] = 'libFuzzer reported an input that does not reproduce: ' + vb['log_tail'][-300:]
        except Violation as v:
            res['violation'] = {'case': case, 'viol': v.to_json(), 'source': 'atheris-' + vb['label']}
    return res
