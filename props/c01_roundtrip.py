"""C01 - Wire codec round trip: what is encoded is exactly what any decoder recovers."""
from __future__ import annotations

from typing import Any, Dict, List

from vlib import msgcase, wire
from vlib.core import Violation

ID = 'C01'
LEVEL = 'exploration'
RULE = ('Hypothesis draws a whole message (name pool with shared suffixes / case variants / boundary label lengths, '
        'four sections of questions and records of all eight kinds, remaining-TTL modes) plus an optional PRNG-expanded '
        'bulk of up to 400 entries aimed at the 1460/8966-byte limits; the message is built through DNSOutgoing and every '
        'datagram decoded by DNSIncoming and by the independent RFC 1035 decoder; per-section lists must equal the '
        'expectation computed from the case alone. Non-trivial = the output contains >= 1 compression pointer (counted by '
        'the independent decoder) or spans > 1 datagram; distinct by SHA-1 of the case JSON.')
ASSUMPTIONS = [
    'independent codec vlib/wire.py is correct (written from the RFCs, imports nothing from zeroconf)',
    'names are <= 253 characters; the independent decoder does not enforce the 255-octet wire limit in this check '
    '(the property bounds names in characters)',
    'NSEC type lists are duplicate-free; A rdata is 4 bytes, AAAA 16 bytes',
]
BUDGET = {'quick': {'examples': 2500}, 'thorough': {'examples': 20000, 'shards': 16}}


def strategy(tier: str):
    return msgcase.message_case(size_directed_share=3)



def FLAKY_IS_VIOLATION(case: Any) -> bool:
    """This check is a pure function of the case (no clock, no threads, no randomness outside the case): when a violation is
    observed and the very same case passes on Hypothesis' re-run, the library has carried state from an earlier case into
    this one (a process-wide memo, a shared container) - on a correct tree the objects of one case cannot affect the next.
    What was seen stands."""
    return True


def known_signature(case: Any, v: Violation):
    return None


def _max_label(secs) -> int:
    m = 0
    for n in msgcase.all_names(secs):
        for l in n[:-1].split('.'):
            m = max(m, len(l.encode('utf-8')))
    return m


def run_case(case: Dict[str, Any]):
    """Returns (secs, packets | None). Raises Violation for a wrong exception."""
    from zeroconf import NamePartTooLongException

    secs = msgcase.expand(case)
    maxlab = _max_label(secs)
    try:
        packets = msgcase.build_packets(case, secs)
    except NamePartTooLongException:
        if maxlab <= 63:
            raise Violation('rejected: NamePartTooLongException although every label is <= 63 bytes',
                            {'max_label': maxlab}, tag='reject-wrong')
        return secs, None, maxlab
    except Exception as e:  # noqa
        raise Violation(f'builder raised {type(e).__name__}: {e}', {'max_label': maxlab}, tag='builder-raised')
    return secs, packets, maxlab


def decode_both(packets: List[bytes]):
    """Decode the datagram sequence with both decoders; returns (lib_sections, ind_sections, pointers)."""
    from zeroconf import DNSIncoming

    lib = {'qd': [], 'an': [], 'ns': [], 'ar': []}
    ind = {'qd': [], 'an': [], 'ns': [], 'ar': []}
    pointers = 0
    for i, p in enumerate(packets):
        try:
            m = wire.strict_decode_lenient_len(p)
        except wire.Reject as e:
            raise Violation(f'independent decoder rejects datagram {i}: {e}', {'datagram': p[:200].hex(), 'len': len(p)},
                            tag='independent-reject')
        pointers += m['_pointers']
        for s in ('qd', 'an', 'ns', 'ar'):
            ind[s].extend(msgcase.wire_to_text(e) for e in m[s])
        try:
            inc = DNSIncoming(p)
            recs = inc.answers()
        except BaseException as e:  # noqa
            raise Violation(f'library decoder raised {type(e).__name__} on datagram {i}', {'datagram': p[:200].hex()},
                            tag='lib-decoder-raised')
        if not inc.valid:
            raise Violation(f'library decoder marks its own datagram {i} invalid', {'datagram': p[:200].hex(),
                                                                                  'len': len(p)}, tag='lib-invalid')
        lib['qd'].extend({'name': q.name, 'type': q.type, 'cls': q.class_ | (0x8000 if q.unique else 0)}
                         for q in inc.questions)
        na, nn, nr = inc.num_answers, inc.num_authorities, inc.num_additionals
        if len(recs) != na + nn + nr:
            raise Violation(f'library decoder returned {len(recs)} records, header counts say {na + nn + nr} '
                            f'(datagram {i})', {'datagram': p[:200].hex()}, tag='lib-count')
        conv = [msgcase.lib_record_to_wire(r) for r in recs]
        lib['an'].extend(conv[:na])
        lib['ns'].extend(conv[na:na + nn])
        lib['ar'].extend(conv[na + nn:])
    return lib, ind, pointers


def compare(exp, got, who: str) -> None:
    for s in ('qd', 'an', 'ns', 'ar'):
        e = [msgcase.wire_to_text(x) for x in exp[s]]
        g = got[s]
        if len(e) != len(g):
            raise Violation(f'{who}: section {s} has {len(g)} entries, expected {len(e)} (lost/duplicated/invented)',
                            {'expected_n': len(e), 'got_n': len(g)}, tag=f'{who}-count')
        for i, (a, b) in enumerate(zip(e, g)):
            if a != b:
                diff = {k: (a.get(k), b.get(k)) for k in set(a) | set(b) if a.get(k) != b.get(k)}
                raise Violation(f'{who}: section {s} entry {i} differs in {sorted(diff)}',
                                {'expected': a, 'got': b}, tag=f'{who}-field-' + '-'.join(sorted(diff)))


def check(case: Dict[str, Any]) -> Dict[str, Any]:
    secs, packets, maxlab = run_case(case)
    classes = []
    n_entries = sum(len(v) for v in secs.values())
    if maxlab in (63, 64, 65):
        classes.append(f'label{maxlab}')
    if packets is None:
        classes.append('rejected-NamePartTooLong')
        return {'nontrivial': False, 'classes': classes}
    exp = msgcase.expected_lists(case, secs)
    lib, ind, pointers = decode_both(packets)
    compare(exp, ind, 'independent')
    compare(exp, lib, 'library')
    names = msgcase.all_names(secs)
    lowered = {}
    for n in names:
        lowered.setdefault(n.lower(), set()).add(n)
    if any(len(v) > 1 for v in lowered.values()):
        classes.append('case-variant-names')
    if '.' in names:
        classes.append('root-name')
    if case.get('via_incoming') and any(r.get('age', 'zero') == 'zero' for r in secs['an']):
        classes.append('answers-added-through-add_answer(incoming, record)')
    if case.get('used_before'):
        classes.append('entry-objects-used-in-an-earlier-message-first')
    if len(packets) > 1:
        classes.append('multi-datagram')
    if pointers:
        classes.append('compressed')
    if any(abs(len(p) - 1460) <= 8 for p in packets):
        classes.append('near-1460')
    if any(abs(len(p) - 8966) <= 8 for p in packets):
        classes.append('near-8966')
    if any(r.get('age', 'zero') != 'zero' for r in secs['an']):
        classes.append('remaining-ttl')
    if n_entries >= 100:
        classes.append('entries>=100')
    if not n_entries:
        classes.append('empty')
    return {
        'nontrivial': bool(pointers or len(packets) > 1),
        'classes': classes,
        'max': {'entries': n_entries, 'datagrams': len(packets), 'pointers': pointers},
        'sample': {'case': case, 'datagrams': [len(p) for p in packets], 'pointers': pointers},
    }
