"""C17 - Shutdown is complete and quiet."""
from __future__ import annotations

import asyncio
from typing import Any, Dict, List, Optional, Set, Tuple

from hypothesis import strategies as st

from vlib import responder as rp, sim, wire
from vlib.core import HarnessError, Violation

ID = 'C17'
LEVEL = 'exploration'
RULE = ('A victim instance and an active peer (own service, browser, periodic traffic) run in the simulator. The victim performs a '
        'generated set of operations at generated times (register 1-3 services without awaiting, start browsers directly and via '
        'AsyncZeroconf.async_add_service_listener, cancel some, start service-info lookups with timeouts 200 ms-10 s, receive QM/QU/'
        'legacy/TC queries that fill the aggregation and protection queues) and async_close() is requested at an absolute time or on '
        'a grid {0,1,174,176,349,351,574,576,799,801,1100} ms after a chosen operation (during probing, between announcements, with '
        'answers queued, TC train held, browser start-up, lookups pending), or aimed (to within -1..+5 loop iterations of 1 us, 20 us or '
        '1 ms virtual cost) at the instant the periodic 10 s purge timer comes due, directly or 250 ms earlier (goodbyes first). '
        'The victim also carries a plain RecordUpdateListener that is never removed; about one case in sixty adds a thread-based ServiceBrowser '
        'whose listener takes 200 ms of real time per callback and has 3-4 callbacks outstanding at the close. Afterwards: injected traffic, peer announcements, a second '
        'async_close(), and 3 h of virtual time. Oracle: nothing is transmitted by the victim and no listener callback fires after '
        '(ServiceListener or RecordUpdateListener) after the first close returned, the loop exception handler stays empty, every in-flight coroutine finishes with a result or '
        'NotRunningException/NonUniqueNameException, services in the registry at close time got three complete goodbyes before the '
        'sockets closed, the second close transmits nothing. Non-trivial = close requested while a victim timer/task with a send in '
        'it was pending (registration in progress, queued answers, TC hold, browser start-up or a pending lookup). About one case '
        'in sixty instead creates Zeroconf() outside any loop (own loop thread), performs register/unregister/browse (thread-based '
        'ServiceBrowser, optionally slow listener)/lookup/query operations from the harness thread and helper threads, and calls close() '
        'or leaves a with-block from a non-loop thread while calls on other threads may be in flight; same oracle plus: loop thread and '
        'browser threads have ended, in-flight calls return or raise a documented exception.')
ASSUMPTIONS = [
    'close from a non-loop thread (Zeroconf.close(), also through the context manager) is executed with real threads on a real selector '
    'loop whose clock runs 10x faster than wall time (about one case in sixty): the schedule of those cases belongs to the operating '
    'system, so their oracle is timing-free (order of events relative to the return of close(), goodbye counts, thread liveness, how '
    'calls in flight on other threads ended); EventLoopBlocked is accepted for a call on another thread that the close interrupted',
    'lookups are bounded by their own timeout; 3 h of virtual time is taken as "never" for hang detection',
]
BUDGET = {'quick': {'examples': 1500}, 'thorough': {'examples': 12000, 'shards': 16}}
GRID = [0, 1, 174, 176, 349, 351, 574, 576, 799, 801, 1100]
TYPES = ['_http._tcp.local.', '_ipp._tcp.local.']


@st.composite
def scenario(draw) -> Dict[str, Any]:
    ops: List[Dict[str, Any]] = []
    n = draw(st.integers(1, 7))
    for i in range(n):
        kind = draw(st.sampled_from(['register', 'register', 'browser', 'browser', 'lookup', 'query', 'query', 'tc', 'cancel', 'unregister']))
        t = draw(st.one_of(st.sampled_from([0, 0, 100, 1000, 2000]), st.integers(0, 3000)))
        op: Dict[str, Any] = {'t': t, 'op': kind}
        if kind == 'register':
            op['svc'] = len([o for o in ops if o['op'] == 'register']) % 3
        elif kind == 'browser':
            op['how'] = draw(st.sampled_from(['direct', 'azc']))
            op['type'] = draw(st.integers(0, 1))
        elif kind == 'lookup':
            op['timeout'] = draw(st.sampled_from([200, 1000, 3000, 10000]))
            op['target'] = draw(st.sampled_from(['peer', 'ghost']))
        elif kind in ('query', 'tc'):
            op['qu'] = draw(st.booleans())
            op['port'] = draw(st.sampled_from([5353, 5353, 40001]))
            op['what'] = draw(st.sampled_from(['ptr', 'srv', 'addr']))
        ops.append(op)
    if draw(st.integers(0, 2)) == 0:
        # settled responder with answers queued / a TC train held when the close arrives
        ops = [{'t': 0, 'op': 'register', 'svc': 0}] + [o for o in ops if o['op'] != 'register']
        nq = draw(st.integers(1, 3))
        for j in range(nq):
            ops.append({'t': 1200 + draw(st.sampled_from([0, 50, 300, 900])), 'op': draw(st.sampled_from(['query', 'tc'])),
                        'qu': False, 'port': 5353, 'what': draw(st.sampled_from(['ptr', 'ptr', 'srv']))})
        n = len(ops)
        close = {'rel': n - 1, 'delta': draw(st.sampled_from([0, 1, 19, 21, 100, 119, 399, 450, 499, 501, 1000, 1199]))}
    elif draw(st.integers(0, 3)) == 0:
        # close aimed at the instant the engine's periodic purge timer comes due (one event-loop iteration wide), either directly
        # or 250 ms earlier when there are services to say goodbye to; 'tick_us' is the virtual cost of one busy loop iteration
        ops = [{'t': 0, 'op': 'browser', 'how': 'direct', 'type': 0}] + ops
        n = len(ops)
        likely = 250 if any(o['op'] == 'register' for o in ops) else 0
        close = {'cleanup': draw(st.integers(1, 3)), 'pre_ms': draw(st.sampled_from([likely, likely, likely, 250 - likely])),
                 'off_ticks': draw(st.integers(-1, 5)), 'tick_us': draw(st.sampled_from([1, 20, 1000]))}
    elif draw(st.integers(0, 5)) == 0:
        # one service settled, a second one still probing, the first unregistered (goodbye task not awaited) and the instance closed
        # right away: the close waits for the goodbyes of the first, and the second completes its registration meanwhile
        t_b = draw(st.sampled_from([1500, 1600, 2000]))
        d_u = draw(st.sampled_from([100, 200, 300, 400, 500]))
        ops = [{'t': 0, 'op': 'register', 'svc': 0}, {'t': t_b, 'op': 'register', 'svc': 1}, {'t': t_b + d_u, 'op': 'unregister'}] + \
              [o for o in ops if o['op'] not in ('register', 'unregister')]
        n = len(ops)
        close = {'at': t_b + d_u + draw(st.sampled_from([0, 0, 1, 50, 130]))}
    elif draw(st.booleans()):
        close = {'rel': draw(st.integers(0, n - 1)), 'delta': draw(st.sampled_from(GRID))}
    else:
        close = {'at': draw(st.one_of(st.sampled_from([0, 1, 500, 1500, 3500]), st.integers(0, 4500)))}
    # rarely (it costs real time): a thread-based ServiceBrowser with a slow listener has several callbacks outstanding when the
    # close is requested on the loop - they may run before async_close() returns, never after
    sync = {'n': draw(st.sampled_from([3, 4])), 'sleep_ms': 200} if draw(st.sampled_from([False] * 59 + [True])) else None
    return {'jitter': draw(st.integers(0, 10**6)), 'ops': ops, 'close': close, 'sync': sync,
            'second_close_after_ms': draw(st.sampled_from([0, 1, 1000, 60000])),
            'post_traffic': draw(st.integers(0, 3))}


@st.composite
def early_scenario(draw) -> Dict[str, Any]:
    # async_close() requested a few event-loop iterations after the instance was created inside a running loop, i.e. while the engine
    # is still creating its sockets (one or several): whatever is created late must be shut as well
    return {'kind': 'early', 'jitter': draw(st.integers(0, 10**6)), 'iters': draw(st.integers(0, 9)),
            'socks': draw(st.sampled_from(['v4', 'dual', 'v4x2', 'v4-split'])), 'browser': draw(st.booleans()),
            'second_close_after_ms': draw(st.sampled_from([1000, 60000]))}


def check_early(case: Dict[str, Any]) -> Dict[str, Any]:
    from vlib.respsim import SOCKS

    out: Dict[str, Any] = {}

    async def main(w: sim.World) -> None:
        from zeroconf.asyncio import AsyncServiceBrowser

        p = w.add_host('P', socks=[('v4', '10.0.0.2')])
        await p.zc.async_wait_for_start()
        socks, single = SOCKS[case['socks']]
        x = w.add_host('X', socks=socks, single=single)
        plain = PlainListener(w, x)
        x.zc.async_add_listener(plain, None)
        lst = sim.RecListener(w, 'early')
        if case['browser']:
            AsyncServiceBrowser(x.zc, TYPES[0], listener=lst)
        for _ in range(case['iters']):
            await asyncio.sleep(0)
        out['started_at_close'] = bool(x.zc.started)
        exc = None
        try:
            await x.azc.async_close()
        except BaseException as e:  # noqa
            if isinstance(e, (HarnessError, KeyboardInterrupt)):
                raise
            exc = e
        x.closed = True
        w.gseq += 1
        g_done = w.gseq
        # the link stays busy: the peer registers a service (probes, announcements) and answers nothing in particular
        task = await p.azc.async_register_service(sim.make_service_info(PEER_SVC))
        await task
        await asyncio.sleep(case['second_close_after_ms'] / 1000.0)
        out.update(exc=exc, g_done=g_done, open_eps=[repr(ep.sock) for ep in x.endpoints if not ep.closed], n_eps=len(x.endpoints),
                   plain_after=[c for c in plain.calls if c['g'] > g_done], cb_after=[e for e in lst.events if e['g'] > g_done],
                   sent_after=[e for e in w.net.trace if e['host'] == 'X' and e['g'] > g_done],
                   cache_names=len(x.zc.cache.cache))
        await x.azc.async_close()
        await asyncio.sleep(100.0)

    with sim.World(jitter_seed=case['jitter']) as w:
        w.run(main(w))
        errors = list(w.errors)
    det = {'iterations_before_close': case['iters'], 'socks': case['socks'], 'started_when_close_was_called': out['started_at_close'],
           'endpoints': out['n_eps']}
    if out['exc'] is not None:
        raise Violation(f"async_close raised {type(out['exc']).__name__}", dict(det, exc=repr(out['exc'])), tag='close-raised')
    if out['open_eps']:
        raise Violation('a socket of the instance is still open (and reading) after async_close() had returned',
                        dict(det, open=out['open_eps']), tag='socket-open-after-close')
    if out['plain_after']:
        raise Violation('RecordUpdateListener.async_update_records called after async_close had returned',
                        dict(det, calls=len(out['plain_after'])), tag='listener-after-close')
    if out['cb_after']:
        raise Violation('browser callback fired after async_close had returned', dict(det, n=len(out['cb_after'])), tag='callback-after-close')
    if out['sent_after']:
        raise Violation('victim transmitted after async_close had returned', dict(det, n=len(out['sent_after'])), tag='send-after-close')
    if errors:
        raise Violation('exception reached the event loop: ' + str(errors[0].get('exception')), dict(det, errors=errors[:2]),
                        tag='loop-exception:' + str(errors[0].get('type')))
    return {'nontrivial': not out['started_at_close'], 'classes': ['close-before-the-engine-has-started' if not out['started_at_close']
                                                                    else 'close-right-after-start'],
            'max': {'ops': 0}, 'sample': {'case': case}}


def strategy(tier: str):
    from props.c17_threads import threaded_scenario

    # about one case in sixty runs real threads in (compressed) real time: Zeroconf() with its own loop thread, closed with
    # close() from another thread (see props/c17_threads.py); everything else runs in virtual time
    return st.sampled_from(['sim'] * 55 + ['early'] * 4 + ['threads']).flatmap(
        lambda k: threaded_scenario() if k == 'threads' else early_scenario() if k == 'early' else scenario())


def FLAKY_IS_VIOLATION(case: Any) -> bool:
    return isinstance(case, dict) and (case.get('kind') in ('threaded', 'apploop') or bool(case.get('sync')))


def known_signature(case: Any, v: Violation):
    return None


VICTIM_SVCS = [
    {'type': TYPES[0], 'name': 'vic0.' + TYPES[0], 'port': 80, 'server': 'victim.local.', 'addrs': ['10.0.0.1'], 'props': ''},
    # (shares the host name of vic0 but lists one address more: each service's own address records have to be withdrawn at close)
    {'type': TYPES[1], 'name': 'vic1.' + TYPES[1], 'port': 81, 'server': 'victim.local.', 'addrs': ['10.0.0.1', 'fe80::1'], 'props': '00'},
    {'type': TYPES[0], 'name': 'vic2.' + TYPES[0], 'port': 82, 'server': 'victim-b.local.', 'addrs': ['10.0.0.1', 'fe80::1'], 'props': ''},
]
PEER_SVC = {'type': TYPES[0], 'name': 'peer0.' + TYPES[0], 'port': 90, 'server': 'peer.local.', 'addrs': ['10.0.0.2'], 'props': ''}


class PlainListener:
    """RecordUpdateListener that logs every call (global sequence number, virtual time, were the sockets already closed)."""

    def __init__(self, world: sim.World, host: sim.Host) -> None:
        self.world, self.host = world, host
        self.calls: List[Dict[str, Any]] = []

    def async_update_records(self, zc: Any, now: float, records: List[Any]) -> None:
        self.world.gseq += 1
        self.calls.append({'g': self.world.gseq, 't': self.world.clock.t, 'n': len(records),
                           'socks_closed': bool(self.host.endpoints) and all(ep.closed for ep in self.host.endpoints)})

    def async_update_records_complete(self) -> None:
        pass


class SlowSyncListener:
    """ServiceListener for the thread-based ServiceBrowser: every callback takes real time; start and end are logged together with
    whether async_close() had already returned."""

    def __init__(self, run: 'Exec', sleep_s: float) -> None:
        self.run, self.sleep_s = run, sleep_s

    def _cb(self, kind: str, name: str) -> None:
        import time as _t

        self.run.sync_log.append(('start', kind, name, self.run.close_returned))
        _t.sleep(self.sleep_s)
        self.run.sync_log.append(('end', kind, name, self.run.close_returned))

    def add_service(self, zc: Any, type_: str, name: str) -> None:
        self._cb('add', name)

    def remove_service(self, zc: Any, type_: str, name: str) -> None:
        self._cb('remove', name)

    def update_service(self, zc: Any, type_: str, name: str) -> None:
        self._cb('update', name)


class Exec:
    def __init__(self, case: Dict[str, Any]) -> None:
        self.case = case
        self.tasks: List[Tuple[str, asyncio.Future]] = []
        self.listeners: List[sim.RecListener] = []
        self.registered: Dict[int, Dict[str, Any]] = {}   # svc index -> {'g_done': g} when async_register_service returned
        self.unregistered: Set[int] = set()
        self.infos: Dict[int, Any] = {}
        self.g_close_call = self.g_close_done = None
        self.t_close_call = self.t_close_done = None
        self.g_second = None
        self.second_exc: Optional[BaseException] = None
        self.first_exc: Optional[BaseException] = None
        self.pending_at_close: List[str] = []
        self.op_times: Dict[int, float] = {}
        self.sync_log: List[Tuple[str, str, str, bool]] = []
        self.close_returned = False
        self.sync_thread: Any = None

    async def main(self, w: sim.World) -> None:
        from zeroconf.asyncio import AsyncServiceBrowser, AsyncServiceInfo

        x = w.add_host('X', socks=[('v4', '10.0.0.1')])
        p = w.add_host('P', socks=[('v4', '10.0.0.2')])
        self.x = x
        await p.zc.async_wait_for_start()
        # the peer: registered service and a browser (keeps the link busy before and after the close)
        self.tasks.append(('peer-register', asyncio.ensure_future(self._peer_register(p))))
        AsyncServiceBrowser(p.zc, TYPES, listener=sim.RecListener(w, 'peer'))
        self.plain = PlainListener(w, x)
        x.zc.async_add_listener(self.plain, None)      # an application's own RecordUpdateListener, never removed
        sync = self.case.get('sync')
        if sync:
            sl = SlowSyncListener(self, sync['sleep_ms'] / 1000.0)
            x.zc.add_service_listener(TYPES[1], sl)
            self.sync_thread = x.zc.browsers[sl]
        t_base = w.now_ms
        ops = sorted(enumerate(self.case['ops']), key=lambda io: (io[1]['t'], io[0]))
        close = self.case['close']
        if 'cleanup' in close:
            t_close = float('inf')      # decided once the operations have run, see below
        elif 'at' in close:
            t_close = close['at']
        else:
            ref = self.case['ops'][close['rel'] % len(self.case['ops'])]
            t_close = ref['t'] + close['delta']
        browsers: List[Any] = []
        timeline: List[Tuple[float, int, Any]] = [(op['t'], i, op) for i, op in ops] + [(t_close, 10**6, 'CLOSE')]
        timeline.sort(key=lambda e: (e[0], e[1]))
        closed = False
        for t, i, op in timeline:
            target = t_base + t
            if op == 'CLOSE' and 'cleanup' in close:
                # steering only: read when the purge timer is due and aim the close (or its last goodbye) into that iteration
                loop = asyncio.get_running_loop()
                for _ in range(close['cleanup'] - 1):
                    await asyncio.sleep(max(0.0, x.zc.engine._cleanup_timer.when() - loop.time()) + 0.001)
                when = x.zc.engine._cleanup_timer.when()
                aim = when - close['pre_ms'] / 1000.0 - (close['off_ticks'] + 0.5) * close['tick_us'] * 1e-6
                if aim > loop.time():
                    await asyncio.sleep(aim - loop.time())
            elif target > w.now_ms:
                await asyncio.sleep((target - w.now_ms) / 1000.0)
            if op == 'CLOSE':
                self.pending_at_close = [name for name, f in self.tasks if not f.done() and not name.startswith('peer')]
                self.queue_len_at_close = len(x.zc.out_queue.queue) + len(x.zc.out_delay_queue.queue)
                self.tc_pending_at_close = sum(len(pr._timers) for pr in x.zc.engine.protocols)
                self.browser_startup_at_close = any(0 < b.query_scheduler._startup_queries_sent < 4 or
                                                    (b.query_scheduler._next_run is not None and not b.done)
                                                    for b in browsers)
                self.in_registry_at_close = [rp.Svc(VICTIM_SVCS[k]) for k in sorted(self.registered)
                                             if x.zc.registry.async_get_info_name(VICTIM_SVCS[k]['name'].lower()) is not None]
                if sync and x.endpoints and not x.endpoints[0].closed:
                    data = wire.encode({'id': 0, 'flags': 0x8400, 'qd': [], 'an': [rp.wire_rr_of_ident(
                        ('PTR', TYPES[1], f'slow{k}.{TYPES[1]}'), 4500) for k in range(sync['n'])], 'ns': [], 'ar': []})
                    w.net.inject(x, data, ('10.0.0.9', 5353))
                w.gseq += 1
                self.g_close_call, self.t_close_call = w.gseq, w.now_ms
                try:
                    await x.azc.async_close()
                except BaseException as e:  # noqa
                    if isinstance(e, (HarnessError, KeyboardInterrupt)):
                        raise
                    self.first_exc = e
                self.close_returned = True
                x.closed = True
                w.gseq += 1
                self.g_close_done, self.t_close_done = w.gseq, w.now_ms
                closed = True
                if self.sync_thread is not None:
                    self.sync_thread.join(timeout=sync['n'] * sync['sleep_ms'] / 1000.0 + 2.0)     # real time; harness only
                continue
            if closed:
                continue   # operations scheduled after the close are dropped (use-after-close is not the subject)
            kind = op['op']
            if kind == 'register':
                if any(name == f'register{op["svc"]}' for name, _ in self.tasks):
                    continue   # each victim service is registered at most once
                self.tasks.append((f'register{op["svc"]}', asyncio.ensure_future(self._register(x, op['svc']))))
            elif kind == 'browser':
                lst = sim.RecListener(w, f'b{i}')
                self.listeners.append(lst)
                if op['how'] == 'direct':
                    browsers.append(AsyncServiceBrowser(x.zc, TYPES[op['type']], listener=lst))
                else:
                    self.tasks.append((f'add-listener{i}', asyncio.ensure_future(x.azc.async_add_service_listener(TYPES[op['type']], lst))))
            elif kind == 'cancel' and browsers:
                b = browsers.pop(0)
                self.tasks.append((f'cancel{i}', asyncio.ensure_future(b.async_cancel())))
            elif kind == 'unregister':
                # one registered service is unregistered; the task that sends its goodbyes is not awaited by the application
                done = [k for k in sorted(self.registered) if k not in self.unregistered and
                        x.zc.registry.async_get_info_name(VICTIM_SVCS[k]['name'].lower()) is not None]
                if done:
                    k = done[0]
                    self.unregistered.add(k)
                    self.tasks.append((f'unregister{k}', asyncio.ensure_future(x.azc.async_unregister_service(self.infos[k]))))
            elif kind == 'lookup':
                name = PEER_SVC['name'] if op['target'] == 'peer' else 'ghost.' + TYPES[0]
                info = AsyncServiceInfo(TYPES[0], name)
                self.tasks.append((f'lookup{i}', asyncio.ensure_future(info.async_request(x.zc, op['timeout']))))
            elif kind in ('query', 'tc'):
                self._inject_query(w, x, op, tc=(kind == 'tc'))
        # ---- after the close ---------------------------------------------------------------------------
        for k in range(self.case['post_traffic']):
            await asyncio.sleep(0.4)
            self._inject_query(w, x, {'qu': bool(k % 2), 'port': 5353 if k % 2 else 40001, 'what': 'ptr'}, tc=False)
            data = wire.encode({'id': 0, 'flags': 0x8400, 'qd': [], 'an': [rp.wire_rr_of_ident(
                ('PTR', TYPES[0], f'late{k}.{TYPES[0]}'), 4500)], 'ns': [], 'ar': []})
            w.net.inject(p, data, ('10.0.0.9', 5353))     # the link stays busy: peer learns a new instance and multicasts
        await asyncio.sleep(self.case['second_close_after_ms'] / 1000.0)
        w.gseq += 1
        self.g_second = w.gseq
        try:
            await x.azc.async_close()
        except BaseException as e:  # noqa
            if isinstance(e, (HarnessError, KeyboardInterrupt)):
                raise
            self.second_exc = e
        await asyncio.sleep(3 * 3600)

    async def _peer_register(self, p: sim.Host) -> None:
        task = await p.azc.async_register_service(sim.make_service_info(PEER_SVC))
        await task

    async def _register(self, x: sim.Host, k: int) -> str:
        info = sim.make_service_info(VICTIM_SVCS[k])
        self.infos[k] = info
        task = await x.azc.async_register_service(info)
        w = x.world
        w.gseq += 1
        self.registered[k] = {'g_done': w.gseq}
        await task
        return 'registered'

    def _inject_query(self, w: sim.World, x: sim.Host, op: Dict[str, Any], tc: bool) -> None:
        if op['what'] == 'ptr':
            qs = [(TYPES[0], 12, op['qu'])]
        elif op['what'] == 'srv':
            qs = [(VICTIM_SVCS[0]['name'], 33, op['qu']), (VICTIM_SVCS[0]['name'], 16, False)]
        else:
            qs = [('victim.local.', 1, op['qu'])]
        data = rp.build_query(qs, [], qid=7, tc=tc)
        ep = x.endpoints[0] if x.endpoints else None
        if ep is None or ep.closed:
            self.post_close_injections = getattr(self, 'post_close_injections', 0) + 1
            return
        w.net.inject(x, data, ('10.0.0.77', op['port']))


ALLOWED_EXC = ('NotRunningException', 'NonUniqueNameException')


def check(case: Dict[str, Any]) -> Dict[str, Any]:
    if case.get('kind') == 'early':
        return check_early(case)
    if case.get('kind') in ('threaded', 'apploop'):
        from props.c17_threads import check_threaded

        return check_threaded(case)
    ex = Exec(case)
    tick = case['close']['tick_us'] * 1e-6 if 'tick_us' in case['close'] else None
    with sim.World(jitter_seed=case['jitter'], tick=tick) as w:
        try:
            w.run(ex.main(w))
        except sim.SimBudgetExceeded as e:
            raise Violation('a coroutine spins without making progress after the close (virtual-time busy loop)',
                            {'pending': [n for n, f in ex.tasks if not f.done()], 'detail': str(e)}, tag='hang-busy-loop')
        trace = list(w.net.trace)
        after_close_sends = list(w.net.sent_after_close)
        errors = list(w.errors)
        outcomes = []
        for name, f in ex.tasks:
            if not f.done():
                outcomes.append((name, 'PENDING', None))
            elif f.cancelled():
                outcomes.append((name, 'cancelled', None))
            elif f.exception() is not None:
                outcomes.append((name, 'raised', f.exception()))
            else:
                outcomes.append((name, 'ok', f.result()))
    rel = lambda ms: round(ms - sim.T0 * 1000, 3)
    det: Dict[str, Any] = {'close_called': rel(ex.t_close_call), 'close_returned': rel(ex.t_close_done),
                           'pending_at_close': ex.pending_at_close}
    if ex.first_exc is not None:
        raise Violation(f'async_close raised {type(ex.first_exc).__name__}', dict(det, exc=repr(ex.first_exc)), tag='close-raised')
    if ex.second_exc is not None:
        raise Violation(f'second async_close raised {type(ex.second_exc).__name__}', dict(det, exc=repr(ex.second_exc)),
                        tag='second-close-raised')
    late = [e for e in trace if e['host'] == 'X' and e['g'] > ex.g_close_done]
    if late:
        e = late[0]
        m = sim.decode_trace_entry(e)
        raise Violation('victim transmitted after async_close had returned',
                        dict(det, t=rel(e['t'] * 1000), dst=e['dst'], response=bool(m and m['flags'] & 0x8000),
                             n=len(late), after_second_close=e['g'] > ex.g_second), tag='send-after-close')
    late2 = [s for s in after_close_sends if s[1] == 'X' and s[0] * 1000 > ex.t_close_done + 0.0001]
    if late2:
        raise Violation('victim called sendto on a closed transport after async_close had returned',
                        dict(det, t=rel(late2[0][0] * 1000), n=len(late2)), tag='sendto-after-close')
    for lst in ex.listeners:
        cb = [e for e in lst.events if e['g'] > ex.g_close_done]
        if cb:
            raise Violation('browser callback fired after async_close had returned',
                            dict(det, callback=(cb[0]['kind'], cb[0]['name'], rel(cb[0]['t'] * 1000))), tag='callback-after-close')
    late_sync = [e for e in ex.sync_log if e[3]]
    if late_sync:
        raise Violation('a thread-based ServiceBrowser ran listener callbacks after async_close had returned',
                        dict(det, late=[(e[0], e[1], e[2]) for e in late_sync][:6], delivered=len(ex.sync_log) // 2), tag='sync-callback-after-close')
    if ex.sync_thread is not None and ex.sync_thread.is_alive():
        raise Violation('the thread of a thread-based ServiceBrowser is still alive after async_close returned', det, tag='sync-thread-alive')
    cb = [c for c in ex.plain.calls if c['g'] > ex.g_close_done]
    if cb:
        raise Violation('RecordUpdateListener.async_update_records called after async_close had returned',
                        dict(det, t=rel(cb[0]['t'] * 1000), n_records=cb[0]['n'], calls=len(cb)), tag='listener-after-close')
    if errors:
        raise Violation('exception reached the event loop: ' + str(errors[0].get('exception')),
                        dict(det, errors=[(rel(e['t'] * 1000), e['message'], e['exception']) for e in errors[:3]]),
                        tag='loop-exception:' + str(errors[0].get('type')))
    for name, state, val in outcomes:
        if name.startswith('peer'):
            continue
        if state == 'PENDING':
            raise Violation('coroutine in flight at close time never finished (3 h later)', dict(det, task=name), tag='hang')
        if state == 'raised' and type(val).__name__ not in ALLOWED_EXC:
            raise Violation(f'in-flight coroutine raised {type(val).__name__}', dict(det, task=name, exc=repr(val)),
                            tag='task-raised:' + type(val).__name__)
    # goodbyes for everything that was in the registry when close was called
    for s in ex.in_registry_at_close:
        # (address records are withdrawn with the last service of their host name - C08's rule; that they end on a goodbye is the
        # last-word clause above)
        want = {s.ptr(), s.srv(), s.txt()}
        n_bye = 0
        for e in trace:
            if e['host'] != 'X' or not (ex.g_close_call < e['g'] < ex.g_close_done) or e['dst'] != sim.MDNS4:
                continue
            m = sim.decode_trace_entry(e)
            if m is None or not m['flags'] & 0x8000:
                continue
            zero = {rp.ident_of_wire_rr(r) for r in m['an'] if r['ttl'] == 0}
            if want <= zero:
                n_bye += 1
        # a service whose (not awaited) unregister was issued at the very instant of the close is withdrawn by both paths
        also_unregistered = any(VICTIM_SVCS[k]['name'] == s.name for k in ex.unregistered)
        if n_bye != 3 and not (also_unregistered and n_bye == 6):
            raise Violation(f'service in the registry at close time got {n_bye} complete goodbyes instead of three before the '
                            'sockets closed', dict(det, service=s.name), tag='close-goodbyes')
    # the last word: whatever the victim multicast about one of its services with a non-zero TTL (announcement or answer, also
    # for a registration that completed while the close was under way) must have been followed by a goodbye before the sockets
    # closed - otherwise the service stays alive in every cache on the link although its instance is gone
    last_word: Dict[Any, Tuple[int, float]] = {}
    vic_idents = set()
    for k_, d in enumerate(VICTIM_SVCS):
        s = rp.Svc(d)
        vic_idents |= {s.ptr(), s.srv(), s.txt()}
        if k_ not in ex.unregistered:
            # (a service unregistered on its own while a sibling kept the host name alive leaves its address records to the
            # sibling - C08's rule; the addresses of a service that was still registered at the close are the close's to withdraw)
            vic_idents |= set(s.addresses())
    for e in trace:
        if e['host'] != 'X' or e['dst'] != sim.MDNS4:
            continue
        m = sim.decode_trace_entry(e)
        if m is None or not m['flags'] & 0x8000:
            continue
        for r in m['an'] + m['ar']:
            i = rp.ident_of_wire_rr(r)
            if i in vic_idents:
                last_word[i] = (r['ttl'], e['t'] * 1000)
    alive = sorted((str(i), ttl, rel(t)) for i, (ttl, t) in last_word.items() if ttl > 0)
    if alive:
        raise Violation('the last thing the instance multicast about one of its own records before closing carried a non-zero TTL '
                        '(the service was announced or answered for, and never withdrawn)',
                        dict(det, records=alive[:4], in_registry_at_close=[s.name for s in ex.in_registry_at_close]), tag='close-last-word')
    busy = bool(ex.pending_at_close or ex.queue_len_at_close or ex.tc_pending_at_close or ex.browser_startup_at_close)
    classes = []
    if any(n.startswith('register') for n in ex.pending_at_close):
        classes.append('close-during-registration')
    if any(n.startswith('lookup') for n in ex.pending_at_close):
        classes.append('close-with-pending-lookup')
    if ex.queue_len_at_close:
        classes.append('close-with-queued-answers')
    if ex.tc_pending_at_close:
        classes.append('close-with-tc-hold')
    if ex.browser_startup_at_close:
        classes.append('close-with-browser-timer')
    if ex.in_registry_at_close:
        classes.append('close-with-registered-services')
    if any(n.startswith('unregister') for n in ex.pending_at_close) or ex.unregistered:
        classes.append('close-after-an-unregister-that-was-not-awaited')
    if any(ex.g_close_call < c['g'] < ex.g_close_done and c['socks_closed'] for c in ex.plain.calls):
        classes.append('purge-timer-fired-between-socket-shutdown-and-timer-cancel')
        busy = True
    if 'cleanup' in case['close']:
        classes.append('close-aimed-at-purge-timer')
    if ex.sync_log:
        classes.append('thread-based-browser-with-callbacks-outstanding-at-close')
        busy = True
    if any(o[1] == 'raised' for o in outcomes):
        classes.append('task-raised-documented-exception')
    return {'nontrivial': busy, 'classes': classes, 'max': {'ops': len(case['ops'])},
            'sample': {'case': case, 'outcomes': [(n, s_) for n, s_, _ in outcomes]}}
