"""C13 - Queries carry known answers and are not needlessly repeated."""
from __future__ import annotations

import asyncio
from typing import Any, Dict, FrozenSet, List, Optional, Set, Tuple

from hypothesis import strategies as st

from vlib import responder as rp, sim, wire
from vlib.core import HarnessError, Violation
from vlib.respsim import ident_of_lib_record

ID = 'C13'
LEVEL = 'exploration'
RULE = ('One instance carries a generated mix of browsers (1-3, possibly two on one type, default/QU/QM), service-info lookups '
        '(timeouts 200 ms-10 s) and registered services (so heard questions are answerable). Its cache is pre-populated through '
        'injected responses with 0-400 pointer records per type and SRV/TXT/A records, at offsets that put their ages just below/at/'
        'above half TTL at the asking instants; peer QM/QU questions with known-answer lists that are a subset of / equal to / a '
        'superset of the host\'s own knowledge are injected 0,1,998,999,1000,1001 ms before the host\'s own scheduled asking instants '
        '(known exactly because the jitter is pinned and recorded). Every query the host emits (TC-chained datagrams form one query, '
        'independent decoder) is checked: known answers == non-stale matching records of a cache snapshot taken at sendto time, each '
        'with floor(remaining TTL); TC on all datagrams but the last; lookups omit SRV/TXT questions they hold; QM questions are '
        'emitted iff not suppressed by a reference HistoryModel fed with everything the host asked or heard-and-could-answer; QU is '
        'never suppressed; QU-then-QM progression; lookup spacing. Non-trivial = a query with >= 1 known answer and >= 1 cached record '
        'excluded for staleness, or a suppression decision at gap 998..1001 ms, or a multi-datagram query.')
ASSUMPTIONS = [
    'the library\'s jitter draws are pinned to one point of their interval per case so asking instants are known in advance; the '
    'actual draws are still read from the recorder',
    'scenario ends before the first 75 % refresh (C10\'s subject)',
    'suppression is judged by the most recent sighting of a question within 999 ms (own ask or heard as a responder), as RFC 6762 7.3 and '
    'the library do; an earlier sighting that a later one with an unknown record has replaced creates no obligation to stay silent',
]
BUDGET = {'quick': {'examples': 1400}, 'thorough': {'examples': 8000, 'shards': 16}}
EPS = 0.05   # ms; asking instants are known exactly, only the per-iteration clock drift (microseconds) separates them
TYPES = ['_a._tcp.local.', '_b._tcp.local.']
PEER = ('10.0.0.9', 5353)
GAPS = [0, 1, 998, 999, 1000, 1001]


@st.composite
def scenario(draw) -> Dict[str, Any]:
    pct = draw(st.sampled_from([0, 50, 100]))
    services = draw(st.lists(st.integers(0, 1), max_size=2, unique=True))       # registered types
    pre = []
    for ti in range(2):
        n = draw(st.sampled_from([0, 1, 5, 5, 60, 200, 400]))
        if n:
            pre.append({'k': 'ptr', 'type': ti, 'n': n, 'ttl': draw(st.sampled_from([1, 1125, 4500])),
                        # age at S (the start of asking) relative to half TTL, in ms: negative = still fresh at S
                        'half_delta': draw(st.sampled_from([-30000, -14021, -14020, -14019, -5020, -1020, -21, -20, -19, 0, 1, 5000])),
                        'second_batch': draw(st.sampled_from([0, 0, 3, 3])), 'recase_second': draw(st.booleans())})
    for ii in range(2):
        which = draw(st.sampled_from(['none', 'srv', 'srv+txt', 'srv+txt', 'txt', 'all-but-a', 'srv+a']))
        if which != 'none':
            pre.append({'k': 'inst', 'inst': ii, 'which': which, 'ttl': draw(st.sampled_from([10, 120, 75, 11])),      # odd TTLs: half a TTL is not a whole second
                        'half_delta': draw(st.sampled_from([-4000, -221, -220, -219, -21, -20, -19, 0, 1, 3000]))})
    askers: List[Dict[str, Any]] = []
    for _ in range(draw(st.integers(1, 3))):
        if draw(st.integers(0, 2)):
            askers.append({'kind': 'browser', 'types': draw(st.sampled_from([[0], [0], [1], [0, 1]])),
                           'qtype': draw(st.sampled_from([None, None, 'QU', 'QM'])), 'at': draw(st.sampled_from([0, 0, 1, 500, 999, 1000, 1500]))})
        else:
            askers.append({'kind': 'lookup', 'inst': draw(st.integers(0, 1)), 'timeout': draw(st.sampled_from([200, 1000, 3000, 10000])),
                           'qtype': draw(st.sampled_from([None, None, 'QU', 'QM'])), 'at': draw(st.sampled_from([0, 1, 300, 1000])),
                           # the application tries again with the ServiceInfo object of an attempt that timed out / was cancelled
                           # twelve minutes earlier: a lookup is a lookup, whatever the object went through before
                           'retry': draw(st.sampled_from([None, None, 'timed-out', 'cancelled']))})
    peers = []
    for _ in range(draw(st.integers(0, 3))):
        peers.append({'asker': draw(st.integers(0, 2)), 'k': draw(st.integers(0, 3)), 'gap': draw(st.sampled_from(GAPS)),
                      'ka': draw(st.sampled_from(['none', 'subset', 'equal', 'superset'])), 'qu': draw(st.sampled_from([False, False, False, True])),
                      'what': draw(st.sampled_from(['ptr', 'ptr', 'srv', 'a']))})
    return {'pct': pct, 'services': services, 'pre': pre, 'askers': askers, 'peers': peers}


def strategy(tier: str):
    return scenario()


def known_signature(case: Any, v: Violation):
    return None


def inst_name(ii: int) -> str:
    return f'dev{ii}.{TYPES[0]}'


def host_name(ii: int) -> str:
    return f'devhost{ii}.local.'


class HistoryModel:
    def __init__(self) -> None:
        self.h: Dict[Tuple, Tuple[float, FrozenSet]] = {}

    def suppresses(self, q: Tuple, t: float, k: Set) -> bool:
        p = self.h.get(q)
        return p is not None and t - p[0] <= 999 and p[1] <= k

    def add(self, q: Tuple, t: float, k: Set) -> None:
        self.h[q] = (t, frozenset(k))


class Exec:
    def __init__(self, case: Dict[str, Any]) -> None:
        self.case = case
        self.snapshots: Dict[int, List[Tuple[Tuple, int, str, float, float]]] = {}
        self.heard: List[Dict[str, Any]] = []
        self.sched: List[Dict[str, Any]] = []       # scheduled asking instants
        self.t_s = 0.0
        self.lookup_results: List[Any] = []
        self.assemblies: List[Dict[str, Any]] = []
        self.sched_snaps: Dict[Tuple[int, int], List[Any]] = {}
        self.lookup_done: Dict[int, float] = {}

    def _snapshot(self, zc: Any) -> List[Tuple[Tuple, int, str, float, float]]:
        out = []
        for key, store in zc.cache.cache.items():
            for r in store:
                ident = ident_of_lib_record(r)
                if ident is not None:
                    out.append((ident, r.type, key, r.created, r.ttl))
        return out

    async def main(self, w: sim.World) -> None:
        from zeroconf import DNSQuestionType
        from zeroconf.asyncio import AsyncServiceBrowser, AsyncServiceInfo

        case = self.case
        pct = case['pct']
        j = 20 + pct           # every 20..120 draw
        host = w.add_host('H')
        zc = host.zc
        self.zc = zc
        await zc.async_wait_for_start()
        for ti in case['services']:
            d = {'type': TYPES[ti], 'name': f'own{ti}.{TYPES[ti]}', 'port': 80, 'server': 'own.local.', 'addrs': ['10.0.0.1'], 'props': ''}
            task = await host.azc.async_register_service(sim.make_service_info(d))
            await task
        await asyncio.sleep(3.0)
        self.used_infos: Dict[int, Any] = {}
        for ai, a in enumerate(case['askers']):
            if a['kind'] == 'lookup' and a.get('retry'):
                info = AsyncServiceInfo(TYPES[0], inst_name(a['inst']))
                if a['retry'] == 'timed-out':
                    if await info.async_request(zc, 200) is not False:
                        raise HarnessError('the earlier attempt was meant to time out (nothing is cached yet)')
                else:
                    t_ = asyncio.ensure_future(info.async_request(zc, 3000))
                    await asyncio.sleep(0.25)
                    t_.cancel()
                    await asyncio.gather(t_, return_exceptions=True)
                self.used_infos[ai] = info

        def on_send(entry: Dict[str, Any]) -> None:
            if entry['host'] == 'H' and len(entry['data']) >= 3 and not entry['data'][2] & 0x80:
                self.snapshots[entry['seq']] = self._snapshot(zc)

        w.net.on_send.append(on_send)
        import zeroconf._handlers.query_handler as qh

        orig = qh.QueryHandler.handle_assembled_query
        ex = self

        def observed(self_, packets, addr, port, transport, v6_flow_scope, *rest):
            w.gseq += 1
            ex.assemblies.append({'g': w.gseq, 't': w.now_ms, 'datas': [p_.data for p_ in packets], 'now_last': packets[-1].now})
            return orig(self_, packets, addr, port, transport, v6_flow_scope, *rest)

        w._patch(qh.QueryHandler, 'handle_assembled_query', observed)
        # ---- pre-population, timed so that ages straddle half TTL at the asking instants --------------
        base = w.now_ms
        horizon = 700_000.0                          # S = base + horizon
        S = base + horizon
        self.t_s = S
        plan: List[Tuple[float, List[Dict[str, Any]]]] = []
        msg_id = 1
        for p in case['pre']:
            if p['k'] == 'ptr':
                ttl_eff = max(p['ttl'], 1125)
                t_inj = S - 500.0 * ttl_eff - p['half_delta']
                n1 = p['n'] - p['second_batch']
                rrs = [rp.wire_rr_of_ident(('PTR', TYPES[p['type']], f'peer{i}.{TYPES[p["type"]]}'), p['ttl']) for i in range(n1)]
                plan.append((t_inj, rrs))
                if p['second_batch']:
                    # (the second responder may spell the type's name in another letter case: still the same rrset)
                    own2 = TYPES[p['type']].upper() if p.get('recase_second') else TYPES[p['type']]
                    rrs2 = [rp.wire_rr_of_ident(('PTR', own2, f'peer{i}.{TYPES[p["type"]]}'), 4500)
                            for i in range(n1, p['n'])]
                    plan.append((S - 100000.0, rrs2))
            else:
                name, hname = inst_name(p['inst']), host_name(p['inst'])
                t_inj = S - 500.0 * p['ttl'] - p['half_delta']
                rrs = []
                if 'srv' in p['which'] or p['which'] == 'all-but-a':
                    rrs.append(rp.wire_rr_of_ident(('SRV', name, 0, 0, 8000 + p['inst'], hname), p['ttl'], flush=True))
                if 'txt' in p['which'] or p['which'] == 'all-but-a':
                    rrs.append(rp.wire_rr_of_ident(('TXT', name, '0161'), p['ttl'], flush=True))
                if p['which'] == 'srv+a':
                    rrs.append(rp.wire_rr_of_ident(('A', hname, '0a000063'), p['ttl'], flush=True))
                plan.append((t_inj, rrs))
        for t_inj, rrs in sorted(plan, key=lambda x: x[0]):
            if t_inj > w.now_ms:
                await asyncio.sleep((t_inj - w.now_ms) / 1000.0)
            for i in range(0, len(rrs), 150):          # keep each injected datagram below the 8966-byte limit
                data = wire.encode({'id': msg_id, 'flags': 0x8400, 'qd': [], 'an': rrs[i:i + 150], 'ns': [], 'ar': []})
                msg_id += 1
                w.net.inject(host, data, PEER)
        # ---- schedule: askers and peer questions on one timeline ------------------------------------
        timeline: List[Tuple[float, int, str, Any]] = []
        for ai, a in enumerate(case['askers']):
            timeline.append((S + a['at'], 1, 'asker', (ai, a)))
            if a['kind'] == 'browser':
                inst = [S + a['at'] + j + off for off in (0, 1000, 5000, 14000)]
            else:
                # mirror of the documented loop: ask, then next = now + delay + jitter; the delay becomes 999 ms only
                # *after* the instant following the first QM question has been computed
                inst = []
                t = S + a['at']
                delay = 200.0
                k = 0
                while t < S + a['at'] + a['timeout'] and len(inst) < 16:
                    inst.append(t)
                    this_qm = (a['qtype'] == 'QM') or k > 0     # a forced type only applies to a lookup's first query
                    t = t + delay + j
                    if this_qm:
                        delay = 999.0
                    k += 1
            a['_instants'] = inst
        for pi, pq in enumerate(case['peers']):
            a = case['askers'][pq['asker'] % len(case['askers'])]
            inst = a['_instants']
            t = inst[pq['k'] % len(inst)] - pq['gap']
            timeline.append((t, 0 if pq['gap'] else 0, 'peer', (pi, pq, a)))
        for ai, a in enumerate(case['askers']):
            for k, t in enumerate(a['_instants']):
                w.loop.call_at(t / 1000.0 - 2e-5, lambda ai=ai, k=k: self.sched_snaps.__setitem__((ai, k), self._snapshot(zc)))
        timeline.sort(key=lambda e: (e[0], e[1]))
        qt = {None: None, 'QU': DNSQuestionType.QU, 'QM': DNSQuestionType.QM}
        self.tasks = []
        from vlib.respsim import advance_exact

        for t, _, kind, payload in timeline:
            if t > w.now_ms:
                await advance_exact(w, S, t - S)
            if kind == 'asker':
                ai, a = payload
                w.gseq += 1
                a['_g'] = w.gseq
                a['_t'] = w.now_ms
                if a['kind'] == 'browser':
                    types = [TYPES[i] for i in a['types']]
                    AsyncServiceBrowser(zc, types if len(types) > 1 else types[0], listener=sim.RecListener(w), question_type=qt[a['qtype']])
                else:
                    info = self.used_infos.get(ai) or AsyncServiceInfo(TYPES[0], inst_name(a['inst']))
                    task = asyncio.ensure_future(info.async_request(zc, a['timeout'], qt[a['qtype']]))
                    task.add_done_callback(lambda f, ai=ai: self.lookup_done.__setitem__(ai, w.now_ms))
                    self.tasks.append(task)
            else:
                pi, pq, a = payload
                snap = self._snapshot(zc)
                now = w.now_ms
                if pq['what'] == 'ptr':
                    ti = (a['types'][0] if a['kind'] == 'browser' else 0)
                    qname, qtype = TYPES[ti], 12
                elif pq['what'] == 'srv':
                    qname, qtype = inst_name(a.get('inst', 0)), 33
                else:
                    qname, qtype = host_name(a.get('inst', 0)), 1
                mine = [(i, c, ttl) for i, typ, key, c, ttl in snap if key == qname.lower() and typ == qtype and c + 500.0 * ttl > now]
                if pq['ka'] == 'none':
                    ka = []
                elif pq['ka'] == 'subset':
                    ka = mine[: len(mine) // 2]
                elif pq['ka'] == 'equal':
                    ka = mine
                else:
                    ka = mine + [(('PTR', qname.lower(), 'extra.' + qname.lower()) if qtype == 12 else ('A', qname.lower(), '0a0000fe'), now, 4500)]
                ka = ka[:120]
                rrs = [rp.wire_rr_of_ident(i, int(ttl)) for i, c, ttl in ka]
                data = rp.build_query([(qname, qtype, pq['qu'])], rrs, qid=100 + pi)
                w.gseq += 1
                self.heard.append({'g': w.gseq, 't': now, 'q': (qname.lower(), qtype, 1), 'qu': pq['qu'], 'ka': {i for i, _, _ in ka},
                                   'gap': pq['gap']})
                w.net.inject(host, data, PEER)
        end = max([max(a['_instants']) for a in case['askers']] + [w.now_ms]) + 1500
        await advance_exact(w, S, end - S)
        for t_ in self.tasks:
            if not t_.done():
                t_.cancel()
        await asyncio.sleep(0)


def check(case: Dict[str, Any]) -> Dict[str, Any]:
    case = {k: ([dict(x) for x in v] if k in ('askers', 'peers', 'pre') else v) for k, v in case.items()}
    ex = Exec(case)
    with sim.World(jitter_explicit=[case['pct']]) as w:
        w.run(ex.main(w))
        trace = [e for e in w.net.trace if e['host'] == 'H' and e['t'] * 1000 >= ex.t_s - 1]
        errors = list(w.errors)
    if errors:
        raise Violation('exception reached the event loop: ' + str(errors[0].get('exception')), errors[:2], tag='loop-exception')
    S = ex.t_s
    rel = lambda ms: round(ms - S, 3)
    # ---- assemble emitted queries (TC chains) ----------------------------------------------------------
    queries: List[Dict[str, Any]] = []
    cur: Optional[Dict[str, Any]] = None
    for e in trace:
        m = sim.decode_trace_entry(e)
        if m is None:
            raise Violation('host sent an undecodable datagram', {'t': rel(e['t'] * 1000)}, tag='malformed')
        if m['flags'] & 0x8000:
            continue
        if cur is None:
            cur = {'t': e['t'] * 1000, 'g': e['g'], 'seq': e['seq'], 'qd': [], 'an': [], 'n': 0}
        elif abs(cur['t'] - e['t'] * 1000) > 1e-6:
            raise Violation('query with the TC bit was not continued at the same instant', {'t': rel(cur['t'])}, tag='tc-chain')
        cur['qd'] += m['qd']
        cur['an'] += m['an']
        cur['n'] += 1
        if not m['flags'] & 0x0200:
            queries.append(cur)
            cur = None
    if cur is not None:
        raise Violation('last datagram of a query still has the TC bit set', {'t': rel(cur['t'])}, tag='tc-chain')
    nontrivial = False
    excluded: Dict[str, int] = {}
    classes: Set[str] = set()
    own_types = {TYPES[ti].lower() for ti in case['services']}
    own_names = {f'own{ti}.{TYPES[ti]}'.lower() for ti in case['services']}

    def answerable(q: Tuple) -> bool:
        return (q[1] in (12, 255) and q[0] in own_types) or (q[1] in (33, 16, 255) and q[0] in own_names) or \
            (q[1] in (1, 28, 255) and q[0] == 'own.local.' and bool(own_types))

    # ---- (1) known answers of every emitted query ------------------------------------------------------
    for q in queries:
        snap = ex.snapshots.get(q['seq'], [])
        now = q['t']
        det: Dict[str, Any] = {'t': rel(now), 'questions': [(wire.name_text(x['name']), x['type'], bool(x['cls'] & 0x8000)) for x in q['qd']],
                               'datagrams': q['n'], 'known_answers': len(q['an'])}
        want_an: Dict[Tuple, int] = {}
        stale_excluded = 0
        for x in q['qd']:
            key, typ = wire.name_text(x['name']).lower(), x['type']
            for ident, rtyp, rkey, c, ttl in snap:
                if rkey == key and rtyp == typ:
                    if c + 500.0 * ttl > now:
                        want_an[ident] = int((c + 1000.0 * ttl - now) / 1000.0)
                    else:
                        stale_excluded += 1
        got_an: Dict[Tuple, int] = {}
        for r in q['an']:
            ident = rp.ident_of_wire_rr(r)
            if ident in got_an:
                raise Violation('known answer listed twice', dict(det, record=ident), tag='ka-duplicate')
            got_an[ident] = r['ttl']
        missing = [i for i in want_an if i not in got_an]
        extra = [i for i in got_an if i not in want_an]
        if missing or extra:
            raise Violation('known-answer section differs from the non-stale matching records of the cache at send time',
                            dict(det, missing=missing[:3], n_missing=len(missing), extra=extra[:3], n_extra=len(extra)),
                            tag='ka-set:' + ('missing' if missing else 'extra'))
        bad = [(i, got_an[i], want_an[i]) for i in want_an if got_an[i] != want_an[i]]
        if bad:
            raise Violation('known answer does not carry the remaining TTL', dict(det, records=bad[:3]), tag='ka-ttl')
        q['kset'] = set(got_an)
        q['qs'] = [(wire.name_text(x['name']).lower(), x['type'], bool(x['cls'] & 0x8000)) for x in q['qd']]
        q['used'] = set()
        if q['an'] and stale_excluded:
            nontrivial = True
            classes.add('ka-with-stale-excluded')
        if q['n'] > 1:
            nontrivial = True
            classes.add('multi-datagram-query')
        if q['an']:
            classes.add('query-with-known-answers')
    # ---- (3)+(4) replay: scheduled asking instants against HistoryModel -------------------------------
    heard: List[Dict[str, Any]] = []
    for a in ex.assemblies:
        qs: List[Tuple] = []
        ka: Set[Tuple] = set()
        for d in a['datas']:
            try:
                m = wire.strict_decode_lenient_len(d)
            except wire.Reject:
                continue
            if not m['ns']:
                ka |= {rp.ident_of_wire_rr(r) for r in m['an']}
            qs += [(wire.name_text(x['name']).lower(), x['type'], x['cls'] & 0x7FFF, bool(x['cls'] & 0x8000)) for x in m['qd']]
        heard.append({'g': a['g'], 't': a['t'], 'now': a['now_last'], 'qs': qs, 'ka': ka})
    asks: List[Dict[str, Any]] = []
    n_browsers_by_type: Dict[str, int] = {}
    for ai, a in enumerate(case['askers']):
        for k, t in enumerate(a['_instants']):
            snap = ex.sched_snaps.get((ai, k))
            if snap is None:
                continue
            if a['kind'] == 'browser':
                want_qu = (a['qtype'] == 'QU') or (a['qtype'] is None and k == 0)
                qlist = [(TYPES[ti].lower(), 12) for ti in a['types']]
            else:
                done = ex.lookup_done.get(ai)
                if done is not None and done <= t + 0.05:
                    continue      # finished (from the cache, by completion or by timeout) before this instant
                want_qu = k == 0 and a['qtype'] in (None, 'QU')
                iname = inst_name(a['inst']).lower()
                start_snap = ex.sched_snaps.get((ai, 0)) or []
                srv = [i for i, typ, key, c, ttl in start_snap if key == iname and typ == 33 and c + 1000.0 * ttl > a['_instants'][0]]
                server = srv[-1][5] if srv else iname
                # "now" as the library saw it: the emission time when something was emitted at this instant
                t_eff = min([q['t'] for q in queries if abs(q['t'] - t) <= EPS] or [t + 0.003])
                qlist = []
                for typ in (33, 16):
                    held = any(key == iname and rtyp == typ and c + 500.0 * ttl > t_eff for _, rtyp, key, c, ttl in snap)
                    if not held:
                        qlist.append((iname, typ))
                    else:
                        classes.add('lookup-omits-held-question')
                qlist += [(server, 1), (server, 28)]
            asks.append({'t': t, 'ai': ai, 'k': k, 'qu': want_qu, 'qlist': qlist, 'snap': snap, 'kind': a['kind'], 'g': a['_g']})
    asks.sort(key=lambda x: (x['t'], x['g']))
    model = HistoryModel()
    hi = 0
    heard.sort(key=lambda h: h['g'])

    def feed_heard(upto_g: Optional[int], upto_t: float) -> None:
        nonlocal hi
        while hi < len(heard) and (heard[hi]['g'] < upto_g if upto_g is not None else heard[hi]['t'] < upto_t - EPS):
            h = heard[hi]
            for name, typ, cls, qu in h['qs']:
                if not qu and answerable((name, typ, cls)):
                    model.add((name, typ, cls), h['now'], h['ka'])
            hi += 1

    for ask in asks:
        t = ask['t']
        # the emission (if any) of this asker at this instant: an unused query at t containing one of its questions
        em = None
        for q in queries:
            if abs(q['t'] - t) <= EPS and any((n, ty) in ask['qlist'] and (n, ty) not in q['used'] for n, ty, _ in q['qs']) \
                    and all((n, ty) in ask['qlist'] for n, ty, _ in q['qs']):
                em = q
                break
        # a question heard at the very instant of this ask (the loop advances 1 us per iteration, so "the same instant" spreads
        # over a few microseconds): the order of the two callbacks is the event loop's, either decision is accepted
        tie0 = any(abs(h['t'] - t) <= EPS for h in heard)
        feed_heard(em['g'] if em is not None else None, t)
        det = {'asker': ask['ai'], 'kind': ask['kind'], 'instant': rel(t), 'k': ask['k']}
        for (name, typ) in ask['qlist']:
            qk = (name, typ, 1)
            tie = tie0
            t_eff = min([q['t'] for q in queries if abs(q['t'] - t) <= EPS] or [t + 0.003])
            K = {i for i, rtyp, key, c, ttl in ask['snap'] if key == name and rtyp == typ and c + 500.0 * ttl > t_eff}
            stale_tie = any(key == name and rtyp == typ and t - 0.001 <= c + 500.0 * ttl <= t + 0.05
                            for _, rtyp, key, c, ttl in ask['snap'])
            tie = tie or stale_tie
            # all emissions of this asker at this instant (a browser may split its types over several datagrams)
            present = [q for q in queries if abs(q['t'] - t) <= EPS and (name, typ) not in q['used']
                       and any(n == name and ty == typ for n, ty, _ in q['qs'])]
            present_qu = [q for q in present if any(n == name and ty == typ and qu for n, ty, qu in q['qs'])]
            present_qm = [q for q in present if any(n == name and ty == typ and not qu for n, ty, qu in q['qs'])]
            others_want = [o for o in asks if o is not ask and abs(o['t'] - t) <= EPS and (name, typ) in o['qlist']]
            if ask['qu']:
                if present_qu:
                    present_qu[0]['used'].add((name, typ))
                elif present_qm and not any(not o['qu'] for o in others_want):
                    raise Violation('question type progression wrong: expected a QU question (first query, or QU forced)',
                                    dict(det, question=(name, typ)), tag='progression')
                else:
                    raise Violation('scheduled QU question was not sent (QU questions are never suppressed)',
                                    dict(det, question=(name, typ)), tag='qu-missing')
                continue
            sup = model.suppresses(qk, t_eff, K)
            prev_ = model.h.get(qk)
            if prev_ is not None and abs((t_eff - prev_[0]) - 999.0) <= 0.02:
                tie = True      # within the clock drift of the 999 ms boundary: either decision is accepted
            if present_qm:
                present_qm[0]['used'].add((name, typ))
                if sup and not tie:
                    prev = model.h[qk]
                    raise Violation('QM question sent although the same question was asked/heard within 999 ms with a known-answer '
                                    'list that contained nothing the host does not list itself',
                                    dict(det, question=(name, typ), previous_t=rel(prev[0])), tag='not-suppressed')
                model.add(qk, present_qm[0]['t'], K)
            else:
                if present_qu and not any(o['qu'] for o in others_want):
                    raise Violation('question type progression wrong: expected a QM question', dict(det, question=(name, typ)),
                                    tag='progression')
                if not sup and not tie:
                    prev = model.h.get(qk)
                    raise Violation('scheduled QM question was not sent although nothing suppresses it',
                                    dict(det, question=(name, typ), previous=None if prev is None else rel(prev[0])), tag='qm-missing')
                classes.add('question-suppressed')
                if sup and model.h[qk][0] >= t - 1001.5 and model.h[qk][0] <= t - 997.5:
                    classes.add('suppression-boundary')
                    nontrivial = True
    # every emitted question must belong to a scheduled ask (no stray queries)
    for q in queries:
        stray = [(n, ty) for n, ty, _ in q['qs'] if (n, ty) not in q['used']]
        if stray:
            raise Violation('query sent at an instant that is not on any asker\'s schedule',
                            {'t': rel(q['t']), 'questions': stray,
                             'schedules': [[rel(t) for t in a['_instants']][:6] for a in case['askers']]}, tag='off-schedule')
    # lookup spacing
    for ai, a in enumerate(case['askers']):
        if a['kind'] != 'lookup' or len([b for b in case['askers'] if b['kind'] == 'lookup' and b['inst'] == a['inst']]) != 1:
            continue
        names = {inst_name(a['inst']).lower(), host_name(a['inst']).lower()}
        sends = [q for q in queries if any(n in names for n, _, _ in q['qs']) and not any(qu for _, _, qu in q['qs'])]
        inst = a['_instants']
        for x, y in zip(sends, sends[1:]):
            if y['t'] - x['t'] < 1000 - EPS:
                fq = 0 if a['qtype'] == 'QM' else 1       # index of the lookup's first QM instant
                if len(inst) > fq + 1 and abs(x['t'] - inst[fq]) <= EPS and abs(y['t'] - inst[fq + 1]) <= EPS:
                    # open finding F14: the delay is raised to 999 ms one iteration late, so the query after the first QM query comes 200 ms + jitter
                    # after it; it is normally suppressed entirely by the host's own question history, but not when
                    # it carries a question the second did not (a held SRV/TXT record went stale in between)
                    excluded['F14-lookup-third-query'] = excluded.get('F14-lookup-third-query', 0) + 1
                    continue
                raise Violation('lookup QM queries closer than one second apart', {'pair': (rel(x['t']), rel(y['t']))},
                                tag='lookup-spacing')
    for h in ex.heard:
        if h['gap'] in (998, 999, 1000, 1001) and not h['qu'] and answerable(h['q']):
            nontrivial = True
            classes.add('peer-question-at-boundary')
    classes.add('askers-%d' % len(case['askers']))
    if any(a.get('retry') for a in case['askers'] if a['kind'] == 'lookup'):
        classes.add('lookup-with-the-object-of-an-earlier-failed-attempt')
    if case['services']:
        classes.add('has-registered-services')
    return {'nontrivial': nontrivial, 'classes': sorted(classes), 'excluded': excluded, 'max': {'queries': len(queries), 'max_ka': max([len(q['an']) for q in queries] + [0])},
            'sample': {'case': case, 'queries': [(rel(q['t']), q['n'], len(q['an'])) for q in queries][:10]}}


def _matches(ident: Tuple, qk: Tuple) -> bool:
    name, typ = qk[0], qk[1]
    t = {'PTR': 12, 'SRV': 33, 'TXT': 16, 'A': 1, 'AAAA': 28, 'NSEC': 47}[ident[0]]
    if ident[0] == 'NSEC':
        return False
    return ident[1] == name and (typ == t or typ == 255)
