"""C09 - Registration probes first, detects conflicts, then announces completely."""
from __future__ import annotations

import asyncio
from typing import Any, Dict, List, Optional, Set, Tuple

from hypothesis import strategies as st

from vlib import responder as rp, sim, wire
from vlib.core import Violation

ID = 'C09'
LEVEL = 'exploration'
RULE = ('A newcomer B registers instance X (allow_name_change False/True, IPv4/IPv6/dual addresses, custom TTLs) on a link where an '
        'owner A may already advertise X and a chain X-2, X-3 (settled for 2 s..20 min, so A answers probes by unicast only or also by '
        'multicast); B starts before or after A\'s announcements (pre-populated or empty cache); every datagram gets a one-way delay of '
        '0-150 ms per receiver; optionally a conflicting PTR is injected into B at {-50,0,1,174,175,176,349,350,351,400} ms relative '
        'to the registration call, optionally as the refresh of a pointer that expired in B\'s cache a few seconds earlier; optionally B registers the same name twice. Oracle on B\'s independently decoded trace and the API '
        'result: per candidate three QU PTR probes 175 ms apart with the proposed pointer in the authority section and no answers; '
        'announcements only after the third probe, three of them 225 ms apart with PTR/SRV/TXT/every address/NSEC, configured TTLs and '
        'flush bits on the unique records only; a candidate that B\'s cache learned (same spelling) before its third probe is rejected '
        '(NonUniqueNameException, or the first free -N suffix) and never announced or answered for; no spurious conflicts; one instance '
        'never holds a name twice. Non-trivial = conflict learned strictly between two probes, or a rename chain of length >= 2.')
ASSUMPTIONS = [
    't_learn is B\'s own perception: the first record-update callback (or pre-existing cache entry) showing PTR type->candidate in the '
    'same spelling with a non-zero TTL',
    'a conflict learned within 2 ms of the third probe instant is a tie (nothing required)',
]
BUDGET = {'quick': {'examples': 4000}, 'thorough': {'examples': 25000, 'shards': 16}}
EPS = 2.0
TYPE = '_http._tcp.local.'
X = 'Printer'
GRID = [-50, 0, 1, 174, 175, 176, 349, 350, 351, 400]


def cand(n: int) -> str:
    return f'{X}.{TYPE}' if n == 1 else f'{X}-{n}.{TYPE}'


@st.composite
def scenario(draw) -> Dict[str, Any]:
    owner = draw(st.sampled_from(['none', 'x', 'x', 'x+2', 'x+2+3']))
    inj = None
    if draw(st.integers(0, 2)) == 0 or owner == 'none' and draw(st.booleans()):
        inj = {'off': draw(st.one_of(st.sampled_from(GRID), st.sampled_from(GRID), st.integers(-60, 450), st.just(-1128000))),
               'cand': draw(st.sampled_from([1, 1, 2])), 'ttl': draw(st.sampled_from([4500, 120, 1]))}
    return {
        'seed': draw(st.integers(0, 10**6)), 'max_delay': draw(st.sampled_from([0, 1, 20, 150, 150])), 'owner': owner,
        'b_first': draw(st.booleans()), 'settle_s': draw(st.sampled_from([2, 2, 30, 200, 1200])),
        'long_label': draw(st.sampled_from([False] * 7 + [True])),
        'non_strict': draw(st.sampled_from([False] * 4 + [True])),
        'allow': draw(st.booleans()), 'addrs': draw(st.sampled_from([['10.0.0.2'], ['fe80::2'], ['10.0.0.2', 'fe80::2'], ['10.0.0.2', '10.0.0.3']])),
        'host_ttl': draw(st.sampled_from([120, 10])), 'other_ttl': draw(st.sampled_from([4500, 60])),
        'inject': inj, 'twice': draw(st.sampled_from([None, None, None, 0, 1, 400, 2000])),
        # B's cache holds the (expired, possibly unpurged) pointer of a candidate from 1128 s ago: a later conflicting PTR is then a
        # refresh of a cached record rather than a new record
        'pre': draw(st.sampled_from([None, None, 1, 1, 2])) if inj is not None and inj['off'] >= -1000 else None,
        # the ServiceInfo object was registered and unregistered on this instance once before (only when B exists before the owner)
        # ('other-name': under another instance name, changed through the public `name` setter afterwards)
        'prior': draw(st.sampled_from([False, False, True, 'other-name'])),
        # a peer asks for the SRV record of every candidate name and for the address records of the newcomer's host, in one packet, at
        # these offsets from the start of the registration (i.e. while it probes or announces): the answers must not disturb what
        # the announcements carry, and nothing may be answered for a name that was given up
        'ask': draw(st.sampled_from([None, None, [400], [400, 925], [360, 600, 925, 1450, 1975], [500, 700]])),
    }


def strategy(tier: str):
    return scenario()


def known_signature(case: Any, v: Violation):
    return None


class Exec:
    def __init__(self, case: Dict[str, Any]) -> None:
        self.case = case
        self.learn: Dict[str, float] = {}       # candidate alias (exact spelling) -> first time B's cache held it unexpired
        self.expiry: Dict[str, float] = {}
        self.result: Any = None
        self.exc: Optional[BaseException] = None
        self.second: Any = None
        self.frozen = False

    async def main(self, w: sim.World) -> None:
        from zeroconf import RecordUpdateListener

        case = self.case
        run = self
        a = b = None

        def mk_b() -> sim.Host:
            hb = w.add_host('B', socks=[('v4', '10.0.0.2')])

            class Spy(RecordUpdateListener):
                def async_update_records(self, zc_: Any, now: float, recs: List[Any]) -> None:
                    if run.frozen:
                        return          # the scenario is over (what the hosts say while they are torn down is not part of it)
                    for r in recs:
                        if r.new.type == 12 and not r.new.ttl and r.new.name.lower() == TYPE:
                            run.learn.pop(r.new.alias, None)           # a goodbye takes the pointer out of the cache
                            run.expiry.pop(r.new.alias, None)
                        if r.new.type == 12 and r.new.ttl and r.new is not r.old and r.new.name.lower() == TYPE:
                            if run.expiry.get(r.new.alias, 0) <= now:
                                run.learn.pop(r.new.alias, None)       # the earlier copy had expired: learned afresh
                            run.learn.setdefault(r.new.alias, now)
                            run.expiry[r.new.alias] = now + 1000.0 * r.new.ttl

                def async_update_records_complete(self) -> None:
                    pass

            hb.zc.async_add_listener(Spy(), None)
            return hb

        prior_info = None
        if case['b_first']:
            b = mk_b()
            await b.zc.async_wait_for_start()
            if case.get('prior'):
                # the very ServiceInfo object of the registration under test has been registered and unregistered on this instance
                # before, when nobody else used the name: whatever it memoised then must not leak into the second registration
                prior_info = sim.make_service_info({'type': TYPE, 'name': cand(1) if case['prior'] is True else 'Earlier.' + TYPE, 'port': 7000, 'server': 'newcomer.local.',
                                                    'addrs': case['addrs'], 'props': '0161', 'host_ttl': case['host_ttl'],
                                                    'other_ttl': case['other_ttl']})
                task = await b.azc.async_register_service(prior_info, strict=not case.get('non_strict'))
                await task
                await asyncio.sleep(1.5)
                task = await b.azc.async_unregister_service(prior_info)
                await task
                await asyncio.sleep(2.0)
                if case['prior'] == 'other-name':
                    prior_info.name = cand(1)
        if case['owner'] != 'none':
            a = w.add_host('A', socks=[('v4', '10.0.0.1')])
            await a.zc.async_wait_for_start()
            chain = {'x': [1], 'x+2': [1, 2], 'x+2+3': [1, 2, 3]}[case['owner']]
            for n in chain:
                if case.get('long_label') and n > 1:
                    continue          # (no '-N' form of the 62-byte label is a legal name for anybody)
                d = {'type': TYPE, 'name': cand(n), 'port': 9000 + n, 'server': 'owner.local.', 'addrs': ['10.0.0.1'], 'props': ''}
                task = await a.azc.async_register_service(sim.make_service_info(d), strict=not case.get('non_strict'))
                await task
        if b is None:
            await asyncio.sleep(1.0)
            b = mk_b()
            await b.zc.async_wait_for_start()
        self.b = b
        inj0 = case['inject']
        pre_c = case.get('pre') or (inj0['cand'] if inj0 is not None and inj0['off'] < -1000 else None)
        if pre_c is not None:
            # an expired-but-possibly-unpurged pointer: TTL 1 (floored to 1125 s) injected 1128 s before the registration
            data0 = wire.encode({'id': 8, 'flags': 0x8400, 'qd': [], 'an': [rp.wire_rr_of_ident(('PTR', TYPE, cand(pre_c)), 1)], 'ns': [], 'ar': []})
            w.net.inject(b, data0, ('10.0.0.9', 5353))
            await asyncio.sleep(1128.0)
        else:
            await asyncio.sleep(case['settle_s'])
        desc = {'type': TYPE, 'name': cand(1), 'port': 7000, 'server': 'newcomer.local.', 'addrs': case['addrs'], 'props': '0161',
                'host_ttl': case['host_ttl'], 'other_ttl': case['other_ttl']}
        self.desc = desc
        info = prior_info if prior_info is not None else sim.make_service_info(desc)
        self.info = info
        T = w.now_ms
        self.T = T
        self.n_trace_T = len(w.net.trace)
        inj = case['inject']
        if inj is not None and inj['off'] >= -1000:
            alias = cand(inj['cand'])
            data = wire.encode({'id': 9, 'flags': 0x8400, 'qd': [], 'an': [rp.wire_rr_of_ident(('PTR', TYPE, alias), inj['ttl'])], 'ns': [], 'ar': []})
            when = T + inj['off']
            if when <= w.now_ms:
                w.net.inject(b, data, ('10.0.0.9', 5353))
            else:
                w.loop.call_at(when / 1000.0, w.net.inject, b, data, ('10.0.0.9', 5353))
        for off in case.get('ask') or []:
            qd = [(cand(n), 33, True) for n in (1, 2, 3)] + [('newcomer.local.', 1, True), ('newcomer.local.', 28, False)]
            w.loop.call_at((T + off) / 1000.0, w.net.inject, b, rp.build_query(qd, [], qid=0), ('10.0.0.9', 5353))
        # pre-existing knowledge at T
        now = w.now_ms
        for alias in list(self.learn):
            if self.expiry.get(alias, 0) <= now:
                del self.learn[alias]          # expired (possibly not yet purged) before the registration started

        async def reg(inf: Any) -> str:
            task = await b.azc.async_register_service(inf, allow_name_change=case['allow'], strict=not case.get('non_strict'))
            await task
            return inf.name

        t1 = asyncio.ensure_future(reg(info))
        try:
            self.result = await t1
        except BaseException as e:  # noqa
            self.exc = e
        self.t_done = w.now_ms
        self.n_trace_first_done = len(w.net.trace)
        if case['twice'] is not None:
            # a second registration of the same name, with a fresh ServiceInfo, after the first call has finished.
            # (Re-registering the very same ServiceInfo *object* with allow_name_change=True makes the library rename an
            # object that is already in its registry, answer its own probes with the new name and probe forever - observed
            # while building this check, outside the stated domain, noted in DESIGN.md.)
            await asyncio.sleep(case['twice'] / 1000.0)
            try:
                self.second = ('ok', await reg(sim.make_service_info(dict(desc, name=info.name if case['twice'] in (0, 1) else desc['name']))))
            except BaseException as e:  # noqa
                self.second = ('exc', e)
        await asyncio.sleep(3.0)
        self.registry_names = [i.name for i in b.zc.registry.async_get_service_infos()]
        self.frozen = True


LONG_LABEL = 'é' * 31        # 62 bytes of UTF-8 in 31 characters: legal, but every '-N' candidate exceeds the 63-byte label limit


def check(case: Dict[str, Any]) -> Dict[str, Any]:
    global X, TYPE
    X = LONG_LABEL if case.get('long_label') else 'Printer'
    # strict=False registrations use a type only the non-strict rules accept (underscore inside, longer than 15 characters)
    TYPE = '_ibisip_http_service._tcp.local.' if case.get('non_strict') else '_http._tcp.local.'
    try:
        return _check(case)
    finally:
        X, TYPE = 'Printer', '_http._tcp.local.'


def _check(case: Dict[str, Any]) -> Dict[str, Any]:
    ex = Exec(case)
    delivery = sim.Delivery(seed=case['seed'], max_delay_ms=case['max_delay'])
    with sim.World(jitter_seed=case['seed'], delivery=delivery) as w:
        w.run(ex.main(w))
        n_end = ex.n_trace_first_done if case['twice'] is not None else len(w.net.trace)
        trace_all = [e for e in w.net.trace[ex.n_trace_T:] if e['host'] == 'B']
        trace = [e for e in w.net.trace[ex.n_trace_T:n_end] if e['host'] == 'B']
        errors = list(w.errors)
    if errors:
        raise Violation('exception reached the event loop: ' + str(errors[0].get('exception')), errors[:2], tag='loop-exception')
    T = ex.T
    rel = lambda ms: round(ms - T, 3)
    probes: Dict[str, List[float]] = {}
    responses: List[Tuple[float, Dict[str, Any], Dict[str, Any]]] = []
    for e in trace:
        m = sim.decode_trace_entry(e)
        if m is None:
            raise Violation('B sent an undecodable datagram', {'t': rel(e['t'] * 1000)}, tag='malformed')
        t = e['t'] * 1000
        if not m['flags'] & 0x8000:
            if m['ns']:
                det = {'t': rel(t)}
                if len(m['qd']) != 1 or m['an'] or len(m['ns']) != 1 or m['flags'] & 0x0200:
                    raise Violation('probe is not a single question with one authority record and no answers', det, tag='probe-shape')
                q = m['qd'][0]
                if wire.name_text(q['name']) != TYPE or q['type'] != 12 or q['cls'] != 0x8001:
                    raise Violation('probe question is not a QU PTR question for the service type', dict(det, q=(wire.name_text(q['name']), q['type'], hex(q['cls']))),
                                    tag='probe-question')
                au = m['ns'][0]
                if au['type'] != 12 or wire.name_text(au['name']) != TYPE or au['ttl'] != case['other_ttl']:
                    raise Violation('probe authority section is not the proposed pointer record', det, tag='probe-authority')
                probes.setdefault(wire.name_text(au['rd']['target']), []).append(t)
        else:
            responses.append((t, e, m))
    name_exc = type(ex.exc).__name__ if ex.exc is not None else None
    det: Dict[str, Any] = {'allow_name_change': case['allow'], 'result': ex.result, 'exception': name_exc,
                           'probes': {k: [rel(x) for x in v] for k, v in probes.items()},
                           'learned': {k: rel(v) for k, v in ex.learn.items()}}
    if case.get('long_label') and name_exc == 'BadTypeInNameException' and case['allow'] and ex.learn:
        # the name is taken and no '-N' candidate is a legal instance label (64 bytes): the documented refusal, nothing announced
        for t, e, m in responses:
            if any(r['ttl'] > 0 and r['type'] == 12 for r in m['an']):
                raise Violation('registration was refused with BadTypeInNameException but a pointer was announced', det, tag='refused-but-announced')
        return {'nontrivial': True, 'classes': ['no-legal-rename-candidate (62-byte label): refused with BadTypeInNameException'],
                'sample': {'case': case}}
    if ex.exc is not None and name_exc not in ('NonUniqueNameException', 'ServiceNameAlreadyRegistered'):
        raise Violation(f'registration raised {name_exc}', dict(det, exc=repr(ex.exc)), tag='raised-' + str(name_exc))
    final = ex.result
    # ---- per-candidate probe schedule --------------------------------------------------------------
    between = False
    for c, ts in probes.items():
        for x, y in zip(ts, ts[1:]):
            if abs((y - x) - 175) > EPS and True:
                raise Violation('probes for one name are not 175 ms apart', dict(det, candidate=c), tag='probe-spacing')
        if len(ts) > 3:
            raise Violation('more than three probes for one name', dict(det, candidate=c), tag='probe-count')
    # ---- detection ---------------------------------------------------------------------------------
    def learned_before_third(c: str) -> Optional[bool]:
        tl = ex.learn.get(c)
        ts = probes.get(c, [])
        t3 = ts[2] if len(ts) >= 3 else None
        if tl is None:
            return False
        if t3 is None:
            return True
        if abs(tl - t3) <= EPS:
            return None       # tie
        return tl < t3

    chain = [cand(1)]
    if final is not None and final != cand(1):
        n = 2
        while cand(n) != final and n < 50:
            chain.append(cand(n))
            n += 1
        if cand(n) != final:
            raise Violation('service ended up registered under an unexpected name', det, tag='final-name')
    rejected = chain if (final is None or final != cand(1)) else []
    if final is not None:
        lb = learned_before_third(final)
        if lb is True and True:
            raise Violation('registered under a name that the cache had learned (same spelling) before the third probe',
                            dict(det, name=final), tag='conflict-missed')
        ts = probes.get(final, [])
        if len(ts) != 3 and True:
            raise Violation(f'{len(ts)} probes for the registered name instead of three', dict(det, name=final), tag='probe-count')
        if final != cand(1) and not case['allow']:
            raise Violation('name was changed although allow_name_change is False', det, tag='renamed-without-permission')
    if name_exc == 'NonUniqueNameException':
        if case['allow'] and True:
            raise Violation('NonUniqueNameException although renaming was allowed', det, tag='nonunique-despite-allow')
        if learned_before_third(cand(1)) is False and True:
            raise Violation('NonUniqueNameException although the cache never learned a conflicting pointer (spurious conflict)', det,
                            tag='spurious-conflict')
    for c in rejected:
        lb = learned_before_third(c)
        if lb is False and True:
            raise Violation('a candidate name was skipped although the cache did not know it', dict(det, candidate=c), tag='spurious-rename')
        ts = probes.get(c, [])
        tl = ex.learn.get(c)
        if tl is not None and ts and ts[0] + EPS < tl and (len(ts) < 3 or tl < ts[2] - EPS):
            between = True
    # ---- announcements and rejected candidates -------------------------------------------------------
    svc_final = None
    if final is not None:
        d = dict(ex.desc, name=final)
        svc_final = rp.Svc(d)
    rejected_l = {c.lower() for c in rejected}
    ann: List[Tuple[float, Dict[str, Any]]] = []
    for t, e, m in responses:
        for r in m['an'] + m['ar']:
            ident = rp.ident_of_wire_rr(r)
            if ident is None:
                continue
            owner = wire.name_text(r['name']).lower()
            target = ident[2] if ident[0] == 'PTR' else None
            if (owner in rejected_l or target in rejected_l) and r['ttl'] > 0 and True:
                raise Violation('B transmitted a record of a name it had to give up', dict(det, t=rel(t), record=ident), tag='rejected-announced')
        # an announcement carries PTR, SRV and TXT in its answer section (a reply to a PTR question carries SRV/TXT as additionals)
        if svc_final is not None and e['dst'] in (sim.MDNS4, sim.MDNS6):
            an_ids = {rp.ident_of_wire_rr(r) for r in m['an'] if r['ttl'] > 0}
            if {svc_final.ptr(), svc_final.srv(), svc_final.txt()} <= an_ids:
                ann.append((t, m))
    if final is not None and True:
        t3 = probes[final][2]
        first3 = ann[:3]
        if len(first3) < 3:
            raise Violation(f'{len(first3)} announcements instead of three', det, tag='announce-count')
        if first3[0][0] < t3 - EPS:
            raise Violation('announcement sent before the third probe', dict(det, first=rel(first3[0][0]), third_probe=rel(t3)), tag='announce-early')
        for (x, _), (y, _) in zip(first3, first3[1:]):
            if abs((y - x) - 225) > EPS:
                raise Violation('announcements are not 225 ms apart', dict(det, times=[rel(a_[0]) for a_ in first3]), tag='announce-spacing')
        want = svc_final.records_with_ttl()
        for t, m in first3:
            got = {}
            for r in m['an']:
                ident = rp.ident_of_wire_rr(r)
                got[ident] = (r['ttl'], bool(r['cls'] & 0x8000))
            for ident, ttl in want.items():
                if ident not in got:
                    raise Violation('announcement lacks one of PTR/SRV/TXT/address/NSEC records', dict(det, t=rel(t), missing=ident), tag='announce-content')
                if got[ident][0] != ttl:
                    raise Violation('announced record does not carry the configured TTL', dict(det, record=ident, ttl=got[ident][0], want=ttl), tag='announce-ttl')
                if got[ident][1] != (ident[0] != 'PTR'):
                    raise Violation('cache-flush bit not exactly on the unique records of the announcement', dict(det, record=ident), tag='announce-flush')
            extra = [i for i in got if i not in want]
            if extra:
                raise Violation('announcement carries a foreign record', dict(det, extra=extra), tag='announce-extra')
    # ---- uniqueness ---------------------------------------------------------------------------------
    names_l = [n.lower() for n in ex.registry_names]
    if len(names_l) != len(set(names_l)):
        raise Violation('one instance holds the same name twice', dict(det, registry=ex.registry_names), tag='duplicate-name')
    if case['twice'] is not None and ex.second is not None and ex.second[0] == 'exc':
        n2 = type(ex.second[1]).__name__
        if n2 not in ('NonUniqueNameException', 'ServiceNameAlreadyRegistered') and not (case.get('long_label') and n2 == 'BadTypeInNameException'):
            raise Violation(f'second registration of the same name raised {n2}', det, tag='second-raised')
    classes = ['owner-' + case['owner'], 'allow' if case['allow'] else 'strict', 'non-strict-type' if case.get('non_strict') else 'strict-type', 'result-' + ('registered' if final else str(name_exc))]
    if between:
        classes.append('conflict-learned-between-probes')
    if len(chain) >= 3:
        classes.append('rename-chain>=2')
    if case['inject']:
        classes.append('injected-conflict')
    if case.get('pre'):
        classes.append('conflict-arrives-as-refresh-of-an-expired-cached-pointer')
    if case['twice'] is not None:
        classes.append('registered-twice')
    if case['b_first'] and case.get('prior'):
        classes.append('same-object-registered-before')
    if case.get('ask'):
        classes.append('peer-asks-for-srv-and-addresses-during-the-registration')
    if case['b_first']:
        classes.append('prepopulated-cache')
    return {'nontrivial': between or len(chain) >= 3, 'classes': classes, 'max': {'chain': len(chain)}, 'sample': {'case': case, 'outcome': det}}
