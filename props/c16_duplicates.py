"""C16 - Back-to-back duplicate datagrams change nothing (metamorphic)."""
from __future__ import annotations

import asyncio
import zlib
from typing import Any, Dict, List, Optional, Set, Tuple

from hypothesis import strategies as st

from vlib import responder as rp, sim, wire
from vlib.core import Violation
from vlib.respsim import advance_exact

from . import c04_browser as c04

ID = 'C16'
LEVEL = 'exploration'
RULE = ('Metamorphic: one instance with 1-2 registered services and 1-2 browsers receives a generated history of datagrams (QM/QU/'
        'mixed/probe/TC/legacy-port queries; responses with new, refreshed, goodbye and cache-flush records of browsed types) with '
        'float-exact gaps, on an IPv4 or an IPv6 socket, some datagrams repeated byte for byte after a pause of 1-5 s; run R delivers each datagram once, run D delivers each twice in immediate succession on the same socket '
        'at the same virtual instant. The library\'s jitter is a keyed function of (call site, virtual millisecond) so the runs cannot '
        'drift through draw counts. Oracle: the traces (time, socket, destination, decoded content) and the browser callback logs of '
        'D and R are equal, except that a unicast reply to a datagram containing a QU question may appear twice in D. Non-trivial = '
        'history with >= 1 duplicated datagram that, processed once, causes a send or a callback.')
ASSUMPTIONS = [
    'finding F10 (a duplicated QU query repeated its multicast side effects) is repaired: nothing is set aside any more and every '
    'difference between the two runs is a violation (while F10 was listed as open, cases in its territory were classified, counted '
    'and skipped; that code only runs if known_findings.json lists F10 as open again)',
]
BUDGET = {'quick': {'examples': 1500}, 'thorough': {'examples': 12000, 'shards': 16}}
TYPES = c04.TYPES
OWN = [
    {'type': TYPES[0], 'name': 'own0.' + TYPES[0], 'port': 80, 'server': 'own.local.', 'addrs': ['10.0.0.1'], 'props': ''},
    {'type': TYPES[1], 'name': 'own1.' + TYPES[1], 'port': 81, 'server': 'own.local.', 'addrs': ['10.0.0.1', 'fe80::1'], 'props': '00'},
]
GAPS = [0, 1, 20, 100, 500, 999, 1000, 1001, 3000]

q_st = st.fixed_dictionaries({
    'kind': st.just('query'),
    'qs': st.lists(st.tuples(st.sampled_from(['type', 'inst', 'host', 'enum']), st.integers(0, 1), st.sampled_from([12, 12, 33, 16, 1, 28, 255]),
                             st.sampled_from([False, False, False, True])).map(list), min_size=1, max_size=3),
    'probe': st.sampled_from([False] * 7 + [True]), 'tc': st.sampled_from([False, False, False, True]),
    'port': st.sampled_from([5353, 5353, 5353, 40001]), 'client': st.integers(0, 1),
})


@st.composite
def scenario(draw) -> Dict[str, Any]:
    events = []
    for _ in range(draw(st.integers(1, 8))):
        ev = dict(draw(st.one_of(q_st, q_st, c04.resp_op().map(lambda o: {'kind': 'resp', 'recs': o[1]}),
                                 c04.announce_op().map(lambda o: {'kind': 'resp', 'recs': o[1]}))))
        ev['gap'] = draw(st.one_of(st.sampled_from(GAPS), st.integers(0, 4000)))
        if ev['kind'] == 'resp':
            # legal but unusual: a response that echoes a question with the QU bit - the duplicate guard does not apply to it, so
            # the second copy reaches the cache as a refresh (which must not change anything either)
            ev['echo_qu'] = draw(st.sampled_from([False, False, False, True]))
        events.append(ev)
        if draw(st.integers(0, 5)) == 0:
            # a peer that repeats itself: the very same bytes again after a pause (a poller re-sending an identical query, a
            # responder re-announcing), with nothing else in between - and that repeat is duplicated by the link as well
            # (also less than a second later: a querier retransmitting quickly - the instance takes that for a repeat, in both runs alike)
            events.append(dict(ev, same_bytes_as_previous=True, gap=draw(st.sampled_from([300, 600, 999, 1000, 1001, 1500, 3000, 5000]))))
        elif ev['kind'] == 'query' and draw(st.integers(0, 4)) == 0:
            # two hosts asking the very same thing (two browsers started together, two stub resolvers with one id): the same bytes
            # from another source within a second - a query of its own, whose link-layer duplicate must change nothing either
            events.append(dict(ev, same_bytes_other_source=True, gap=draw(st.sampled_from([0, 1, 200, 900, 999, 1001]))))
    if draw(st.integers(0, 7)) == 0:
        # a querier that retransmits a mixed QU+QM query 300-600 ms later (the link duplicates every copy)
        q0 = {'kind': 'query', 'qs': [['type', 0, 12, False], ['inst', 0, draw(st.sampled_from([33, 16])), True]], 'probe': False, 'tc': False,
              'port': 5353, 'client': 0, 'gap': draw(st.sampled_from([0, 3000]))}
        events = [q0, dict(q0, same_bytes_as_previous=True, gap=draw(st.sampled_from([300, 600])))] + events[:4]
    return {'seed': draw(st.integers(0, 10**6)), 'services': draw(st.sampled_from([[0], [0, 1]])),
            'browsers': draw(st.lists(st.lists(st.integers(0, 2), min_size=1, max_size=2, unique=True).map(sorted), min_size=1, max_size=2)),
            'settle_ms': draw(st.sampled_from([1500, 40000])), 'events': events,
            'socks': draw(st.sampled_from(['v4', 'v4', 'v6']))}


def strategy(tier: str):
    return scenario()


def _qname(q: List[Any], services: List[int]) -> Tuple[str, int, bool]:
    tk, k, qtype, qu = q
    d = OWN[services[k % len(services)]]
    if tk == 'type':
        name = d['type']
    elif tk == 'inst':
        name = d['name']
    elif tk == 'host':
        name = d['server']
    else:
        name, qtype = rp.ENUM, 12
    return name, qtype, bool(qu)


def run_once(case: Dict[str, Any], dup: bool) -> Dict[str, Any]:
    out: Dict[str, Any] = {}

    async def main(w: sim.World) -> None:
        from zeroconf.asyncio import AsyncServiceBrowser

        v6 = case.get('socks', 'v4') == 'v6'     # IPv6 sockets report 4-tuple source addresses (addr, port, flow, scope)
        host = w.add_host('H', socks=[('v6', 'fe80::1')] if v6 else [('v4', '10.0.0.1')])
        await host.zc.async_wait_for_start()
        for k in case['services']:
            task = await host.azc.async_register_service(sim.make_service_info(OWN[k]))
            await task
        listeners = []
        for tis in case['browsers']:
            lst = sim.RecListener(w)
            listeners.append(lst)
            types = [TYPES[i] for i in tis]
            AsyncServiceBrowser(host.zc, types if len(types) > 1 else types[0], listener=lst)
        await asyncio.sleep(case['settle_ms'] / 1000.0)
        t0 = w.now_ms
        out['t0'] = t0
        out['n0'] = len(w.net.trace)
        last = t0
        injected = []
        for i, ev in enumerate(case['events']):
            await advance_exact(w, last, ev['gap'])
            last = w.now_ms
            if ev.get('same_bytes_as_previous') and injected:
                data, src, has_qu = prev
            elif ev.get('same_bytes_other_source') and injected:
                data, _, has_qu = prev
                oc = 1 - ev['client']
                src = ('fe80::%x' % (0x77 + oc), ev['port'], 0, 2) if v6 else ('10.0.0.%d' % (77 + oc), ev['port'])
            elif ev['kind'] == 'query':
                qs = [_qname(q, case['services']) for q in ev['qs']]
                auth = [rp.wire_rr_of_ident(('PTR', TYPES[0], 'cand.' + TYPES[0]), 4500)] if ev['probe'] else []
                data = rp.build_query(qs, [], qid=i + 1, tc=ev['tc'], authorities=auth)
                src = ('fe80::%x' % (0x77 + ev['client']), ev['port'], 0, 2) if v6 else ('10.0.0.%d' % (77 + ev['client']), ev['port'])
                has_qu = any(qu for _, _, qu in qs)
            else:
                recs = []
                spelling: Dict[Tuple[int, int], int] = {}
                for r in ev['recs']:
                    r = dict(r)
                    if 'inst' in r:
                        r['sp'] = spelling.setdefault((r['type'], r['inst']), r['sp'])
                    recs.append(r)
                qd = [{'name': wire.labels_of(TYPES[0]), 'type': 12, 'cls': 0x8001}] if ev.get('echo_qu') else []
                data = wire.encode({'id': i + 1, 'flags': 0x8400, 'qd': qd, 'an': [c04.to_rr(r) for r in recs], 'ns': [], 'ar': []})
                src = ('fe80::9', 5353, 0, 2) if v6 else ('10.0.0.9', 5353)
                has_qu = False
            prev = (data, src, has_qu)
            injected.append({'t': w.now_ms, 'g': w.gseq, 'qu': has_qu, 'src': src, 'kind': ev['kind']})
            w.net.inject(host, data, src)
            if dup:
                w.net.inject(host, data, src)
        await asyncio.sleep(12.0)      # past the next 10 s purge: an entry whose lifetime was changed shows up as a callback
        out['injected'] = injected
        out['callbacks'] = [[(e['kind'], e['type'], e['name'], round(e['t'] * 1000 - t0, 2)) for e in lst.events if e['t'] * 1000 >= t0]
                            for lst in listeners]

    def keyed(seed: int):
        seen: Dict[Tuple[str, int], int] = {}

        def fn(site: str, a: int, b: int, t_ms: int) -> int:
            # keyed by (site, virtual millisecond, occurrence within that millisecond): two browsers started at one instant
            # get different delays (no artificial timer ties), while extra draws elsewhere in run D cannot shift other sites
            k = seen.get((site, t_ms), 0)
            seen[(site, t_ms)] = k + 1
            return a + (zlib.crc32(f'{seed}/{site}/{t_ms}/{k}'.encode()) % (b - a + 1))

        return fn

    with sim.World(jitter_seed=case['seed'], jitter_keyed=True) as w:
        fn = keyed(case['seed'])
        w.jitter.draw = lambda site, a, b, _fn=fn, _w=w: _record(_w, site, a, b, _fn(site, a, b, int(_w.clock.t * 1000)))   # type: ignore
        w.run(main(w))
        out['errors'] = list(w.errors)
        tr = []
        for e in w.net.trace[out['n0']:]:
            if e['host'] != 'H':
                continue
            m = sim.decode_trace_entry(e)
            if m is None:
                content: Any = ('raw', e['data'].hex())
            else:
                sec = lambda rs: tuple(sorted((str(rp.ident_of_wire_rr(r)), r['ttl'], r['cls']) for r in rs))
                content = (m['id'], m['flags'], tuple((wire.name_text(q['name']), q['type'], q['cls']) for q in m['qd']),
                           sec(m['an']), sec(m['ns']), sec(m['ar']))
            tr.append((round(e['t'] * 1000 - out['t0'], 2), e['sock'], e['dst'], e['port'], content))
        out['trace'] = tr
    return out


def _record(w: sim.World, site: str, a: int, b: int, v: int) -> int:
    w.jitter.draws.append({'g': w.gseq, 't': w.clock.t, 'site': site, 'a': a, 'b': b, 'v': v})
    return v


def known_signature(case: Any, v: Violation):
    return None


def _f10_open() -> bool:
    """The exclusions below exist only while F10 is listed as an open finding; once it is recorded as fixed nothing is set aside."""
    import json
    import os

    path = os.path.join(os.path.dirname(os.path.dirname(os.path.abspath(__file__))), 'known_findings.json')
    try:
        with open(path) as f:
            return any(e.get('id') == 'F10' and e.get('status') == 'open' for e in json.load(f).get('findings', []))
    except OSError:
        return False


def check(case: Dict[str, Any]) -> Dict[str, Any]:
    R = run_once(case, dup=False)
    D = run_once(case, dup=True)
    for name, run in (('reference', R), ('duplicated', D)):
        if run['errors']:
            raise Violation(f'exception reached the event loop in the {name} run: ' + str(run['errors'][0].get('exception')),
                            run['errors'][:2], tag='loop-exception')
    # ---- open finding F10: exclusion by classification ---------------------------------------------------
    # A datagram with a QU question is processed twice in full.  Whenever its processing has multicast side effects in the
    # reference run (an immediate multicast at that instant, QM questions or a pending truncated train from the same source in
    # the same assembly, or a legacy source port, whose reply is always multicast as well) the duplicated run legitimately-by-the-code differs (doubled or moved multicast, and everything
    # downstream of the changed sighting times).  Such cases are counted and skipped; all others are compared in full.
    f10 = 0
    pending_tc: Dict[str, bool] = {}
    f10_open = _f10_open()
    for i, ev in zip(R['injected'] if f10_open else [], case['events']):
        if ev['kind'] != 'query':
            continue
        src = i['src'][0]
        if i['qu']:
            t_rel = round(i['t'] - R['t0'], 2)
            mixed = any(not q[3] for q in ev['qs'])
            mc_now = any(abs(e[0] - t_rel) <= 0.01 and e[2] in (sim.MDNS4, sim.MDNS6) and len(e[4]) > 3 and e[4][1] & 0x8000
                         for e in R['trace'])
            # (a packet that itself carries the TC bit is always deferred, and its copy is recognised in the per-source list of
            # deferred packets: processed once, so not part of the finding)
            if not ev['tc'] and (mixed or pending_tc.get(src) or mc_now or ev['probe'] or ev['port'] != 5353):
                f10 += 1
        pending_tc[src] = bool(ev['tc'])
    if f10:
        return {'nontrivial': False, 'classes': ['excluded-known-F10'], 'excluded': {'F10-qu-duplicate-multicast': f10},
                'max': {'events': len(case['events'])}}
    qu_instants: Dict[float, Set[Tuple[str, int]]] = {}
    for i in R['injected']:
        if i['qu']:
            qu_instants.setdefault(round(i['t'] - R['t0'], 2), set()).add((i['src'][0], i['src'][1]))
    r_list = list(R['trace'])
    d_list = list(D['trace'])
    # multiset difference D - R
    from collections import Counter

    cr, cd = Counter(r_list), Counter(d_list)
    extra = cd - cr
    missing = cr - cd
    excluded_f10 = 0
    allowed_extra = 0
    for entry, n in list(extra.items()):
        t, sock, dst, port, content = entry
        if t in qu_instants and dst not in (sim.MDNS4, sim.MDNS6) and (dst, port) in qu_instants[t] and \
                len(content) > 3 and content[1] & 0x8000:
            # the stated exception: a query containing a QU question may be answered by unicast twice. The repeat must carry
            # nothing the reference run's unicast replies to that source at that instant did not carry (the echoed id may differ:
            # a QU packet that completed a truncated train is answered alone the second time)
            ref_an = {a for e2 in r_list if e2[0] == t and (e2[2], e2[3]) == (dst, port) and len(e2[4]) > 3 for a in e2[4][3]}
            if ref_an and set(content[3]) <= ref_an:
                allowed_extra += n
                del extra[entry]
        elif f10_open and t in qu_instants and dst in (sim.MDNS4, sim.MDNS6) and cr[entry] >= 1 and n <= cr[entry] and content[1] & 0x8000:
            excluded_f10 += n           # open finding F10, exact signature: identical extra copy of a multicast reply at the QU instant
            del extra[entry]
    if (extra or missing) and f10_open:
        # open finding F10 (broad form): a duplicated datagram with a QU question is processed twice, including its multicast side
        # effects - the immediate multicast is doubled, or answers are queued again and the aggregated reply moves to a later
        # instant. Signature: every differing entry is a multicast response within 1.3 s after a QU-containing datagram, and
        # the duplicated run still multicasts every answer record the reference run did.
        qts = sorted(qu_instants)
        def near_qu(t: float) -> bool:
            return any(tq - 0.01 <= t <= tq + 1300 for tq in qts)
        diff_entries = list(extra.elements()) + list(missing.elements())
        if all(e[2] in (sim.MDNS4, sim.MDNS6) and len(e[4]) > 3 and e[4][1] & 0x8000 and near_qu(e[0]) for e in diff_entries):
            ex_an = {a[0] for e in extra.elements() for a in e[4][3]}
            mi_an = {a[0] for e in missing.elements() for a in e[4][3]}
            if mi_an <= ex_an:
                excluded_f10 += len(diff_entries)
                extra, missing = Counter(), Counter()
    if extra or missing:
        def show(c: Any) -> List[Any]:
            return [(e[0], e[2], e[3], 'response' if (len(e[4]) > 1 and e[4][1] & 0x8000) else 'query', [x[0] for x in e[4][3]][:4] if len(e[4]) > 3 else None, n)
                    for e, n in list(c.items())[:4]]
        raise Violation('duplicating every datagram changed what the instance transmits',
                        {'only_in_duplicated_run': show(extra), 'only_in_reference_run': show(missing),
                         'injected': [(round(i['t'] - R['t0'], 2), i['kind'], i['qu']) for i in R['injected']]},
                        tag='trace-differs:' + ('extra' if extra else 'missing'))
    if R['callbacks'] != D['callbacks']:
        raise Violation('duplicating every datagram changed the browser callbacks',
                        {'reference': R['callbacks'], 'duplicated': D['callbacks']}, tag='callbacks-differ')
    effect = bool(r_list) or any(R['callbacks'])
    classes = ['socks-' + case.get('socks', 'v4')]
    if r_list:
        classes.append('causes-sends')
    if any(R['callbacks']):
        classes.append('causes-callbacks')
    if allowed_extra:
        classes.append('qu-unicast-repeated')
    if excluded_f10:
        classes.append('excluded-known-F10')
    if any(ev['kind'] == 'query' and ev['tc'] for ev in case['events']):
        classes.append('tc-query')
    if any(ev.get('same_bytes_other_source') for ev in case['events']):
        classes.append('same-query-bytes-from-a-second-source')
    return {'nontrivial': effect, 'classes': classes, 'excluded': {'F10-qu-duplicate-multicast': excluded_f10} if excluded_f10 else {},
            'max': {'events': len(case['events']), 'sends': len(r_list)}, 'sample': {'case': case, 'reference_sends': len(r_list)}}
