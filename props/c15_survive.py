"""C15 - A running instance survives any datagram stream."""
from __future__ import annotations

import asyncio
import random
from typing import Any, Dict, List, Optional, Tuple

from hypothesis import strategies as st

from vlib import responder as rp, sim, wire
from vlib.core import HarnessError, Violation

from . import c02_decoder as c02

ID = 'C15'
LEVEL = 'exploration'
RULE = ('A victim instance (single IPv4 socket or dual-stack listen+respond sockets) with registered services, an active browser and a '
        'service-info lookup in progress receives a stream of 1-40 datagrams drawn from C02\'s sources (uniform bytes, mutated valid '
        'messages, the compression-graph grammar) plus hostile-but-parsable queries (invalid UTF-8 / 63-byte / dotted labels echoed '
        'through the encoder), 20 % oversized (8967..70000 bytes), interleaved with valid queries, announcements and clock advances, '
        'from IPv4/IPv6 sources, port 5353 or a legacy port, on each socket. Oracle: the loop exception handler stays empty and no '
        'library task dies; an oversized datagram changes nothing (no send, no cache change, no callback); afterwards a canary legacy '
        'query gets its unicast answer, a canary QM query its multicast answer within 1.3 s, and a canary announcement reaches the '
        'browser. Non-trivial = stream with >= 1 datagram that DNSIncoming marks valid but the strict decoder rejects, delivered from '
        'a legacy port.')
ASSUMPTIONS = [
    'the canary uses a source address that the stream never uses (a truncated query held for that source would otherwise be merged)',
    'coverage-guided corpus reuse from C02 is not wired into this check: the structured generators reach the same decoder states',
]
BUDGET = {'quick': {'examples': 900}, 'thorough': {'examples': 8000, 'shards': 16}}
TYPE_OWN = '_http._tcp.local.'
TYPE_B = '_b._tcp.local.'
LOOKUP_NAME = 'peer0.' + TYPE_B     # an instance the stream talks about (its SRV may name an odd host): the lookup must survive that
OWN = {'type': TYPE_OWN, 'name': 'victim.' + TYPE_OWN, 'port': 8080, 'server': 'victim.local.', 'addrs': ['10.0.0.1', 'fe80::1'], 'props': '0161'}
HOSTILE_LABELS = ['ff' * 40, 'ff' * 22, 'c3' * 63, '2e2e2e', '00', 'e2' * 30, '41' * 63, 'f0' * 16 + '80' * 16]
# two labels that are the same name to every case-insensitive comparison (KELVIN SIGN U+212A lower-cases to 'k') but re-encode to
# different lengths: twelve invalid bytes (three bytes each once decoded with replacement characters) followed by twelve 'k'
# (48 bytes to write back) or twelve KELVIN SIGNs (72 bytes: not writable)
KELVIN_PAIR = ['e9' * 12 + '6b' * 12, 'e9' * 12 + 'e284aa' * 12]
HOSTILE_LABELS += KELVIN_PAIR


@st.composite
def hostile_query(draw) -> Dict[str, Any]:
    """Parsable by the library, not by a strict decoder's UTF-8/echo assumptions: odd labels in question names."""
    labels = draw(st.lists(st.sampled_from(HOSTILE_LABELS), min_size=1, max_size=3))
    extra_q = draw(st.booleans())
    return {'src': 'hostile', 'labels': labels, 'legit_too': extra_q, 'qtype': draw(st.sampled_from([12, 255, 1, 33])),
            'qu': draw(st.booleans())}


valid_query = st.fixed_dictionaries({'src': st.just('vquery'), 'what': st.sampled_from(['ptr', 'srv', 'addr', 'enum']),
                                     'qu': st.booleans(), 'tc': st.sampled_from([False, False, True])})
valid_resp = st.fixed_dictionaries({'src': st.just('vresp'), 'inst': st.sampled_from([0, 0, 0, 1, 1, 2, 3]),
                                    'ttl': st.sampled_from([0, 0, 1, 120, 4500, 4500]), 'flush': st.booleans(),
                                    'repeat': st.sampled_from([0, 0, 1, 2, 2]), 'recase': st.sampled_from([False, False, True]),
                                    # the announcement may end with an address record of the SRV target, and the datagram may be cut
                                    # short inside that record (a truncated copy of a valid announcement)
                                    'addr': st.sampled_from([None, None, 'a', 'aaaa-ll', 'aaaa-ll', 'aaaa-global']),
                                    'cut': st.sampled_from([0, 0, 1, 3, 10, 15, 16, 17])})


# answers to the service-type enumeration (announcement or goodbye of a type, possibly in another letter case than before)
enum_resp = st.fixed_dictionaries({'src': st.just('enum'), 'k': st.integers(0, 1), 'ttl': st.sampled_from([4500, 4500, 0, 0, 1]),
                                   'recase': st.booleans()})


@st.composite
def hostile_resp(draw) -> Dict[str, Any]:
    """A response about the browsed type (or the host's own names) whose record data carries odd-but-parsable labels: pointer
    targets, SRV targets and owner names that the instance will cache and later has to re-encode (known answers, echoes)."""
    return {'src': 'hresp', 'labels': draw(st.lists(st.sampled_from(HOSTILE_LABELS), min_size=1, max_size=2)),
            'where': draw(st.sampled_from(['ptr-target', 'ptr-target', 'srv-target', 'srv-owner', 'a-owner', 'ptr-owner', 'ptr-owner'])),
            'ttl': draw(st.sampled_from([4500, 4500, 120, 1])), 'type_own': draw(st.sampled_from([False, False, True]))}


# degenerate but well-formed names: one or two labels, the root, protocol / '_sub' / 'local' labels out of place - shapes the
# browser's type matching, the registry lookups and the service-name helpers are handed when such a name owns a record or is asked for
SHORT_NAMES = [[], ['_x'], ['_tcp'], ['local'], ['x'], ['_sub', 'local'], ['_x', '_sub'], ['_tcp', 'local'], ['_x', '_tcp'],
               ['_sub', '_b', '_tcp', 'local'], ['_services', '_dns-sd', '_udp', 'local'], ['_a', '_b', '_c', '_d', '_e', 'local'],
               ['_udp'], ['_x', 'local'], ['a', 'b'], ['_', '_', '_']]


@st.composite
def short_name_msg(draw) -> Dict[str, Any]:
    return {'src': 'short', 'names': draw(st.lists(st.integers(0, len(SHORT_NAMES) - 1), min_size=1, max_size=3)),
            'rtype': draw(st.sampled_from([12, 12, 33, 16, 1, 47, 13])), 'query': draw(st.sampled_from([False, False, True])),
            'with_announcement': draw(st.booleans()), 'ttl': draw(st.sampled_from([4500, 120, 0]))}


@st.composite
def item(draw) -> Dict[str, Any]:
    d = draw(st.one_of(c02.msg_case(True), c02.msg_case(True), c02.msg_case(False), c02.graph_case(), hostile_query(), hostile_query(),
                       valid_query, valid_resp, valid_resp, hostile_resp(), short_name_msg(), enum_resp,
                       st.builds(lambda n, s: {'src': 'rand', 'len': n, 'seed': s, 'hdr': 'sane'}, st.integers(0, 300), st.integers(0, 2**32))))
    # gaps include hours: timers armed by earlier datagrams (refresh schedules, purges, queues) must survive too
    return {'d': d, 'gap': draw(st.sampled_from([0, 0, 1, 50, 500, 1100, 5000, 5000, 850000, 1130000, 3400000, 4600000])), 'port': draw(st.sampled_from([5353, 5353, 40001, 1])),
            'family': draw(st.sampled_from(['v4', 'v4', 'v6'])), 'sock': draw(st.integers(0, 2)), 'client': draw(st.integers(0, 2)),
            'oversize': draw(st.sampled_from([None, None, None, None, 8967, 9000, 20000, 70000])),
            # what the application does at that moment: start another lookup (for the instance this datagram talks about), or cancel
            # the latest one (asyncio.wait_for giving up, a task being cancelled) in the very loop iteration in which the datagram arrives
            'app': draw(st.sampled_from([None] * 5 + ['start-lookup'] * 3 + ['cancel-lookup'] * 3))}


@st.composite
def _cut_announcement_case(draw, tier: str) -> Dict[str, Any]:
    """Directed shape: a dual-stack instance, a lookup in progress, and the instance's announcement arriving on the IPv6 socket cut
    short inside its trailing address record (a datagram truncated in flight is still a datagram)."""
    stream = draw(st.lists(item(), min_size=0, max_size=6))
    d = {'src': 'vresp', 'inst': draw(st.sampled_from([0, 1])), 'ttl': draw(st.sampled_from([120, 4500])), 'flush': draw(st.booleans()),
         'repeat': 0, 'recase': False, 'addr': draw(st.sampled_from(['a', 'aaaa-ll', 'aaaa-ll', 'aaaa-global'])),
         'cut': draw(st.sampled_from([1, 2, 3, 10, 14, 15, 16]))}
    stream.insert(draw(st.integers(0, len(stream))),
                  {'d': d, 'gap': draw(st.sampled_from([0, 1, 500])), 'port': 5353, 'family': draw(st.sampled_from(['v6', 'v6', 'v4'])),
                   'sock': draw(st.integers(0, 2)), 'client': 0, 'oversize': None, 'app': draw(st.sampled_from(['start-lookup', 'start-lookup', None]))})
    return {'socks': 'dual', 'seed': draw(st.integers(0, 10**6)), 'canary_junk': None, 'stream': stream}


@st.composite
def _enumeration_case(draw, tier: str) -> Dict[str, Any]:
    """Directed shape: the application enumerates service types while a type is announced and then withdrawn - the goodbye possibly
    in another letter case than the announcement (names are matched case-insensitively; callbacks carry the datagram's spelling)."""
    stream = draw(st.lists(item(), min_size=0, max_size=6))
    k_ = draw(st.integers(0, 1))
    mk = lambda ttl, rc, gap: {'d': {'src': 'enum', 'k': k_, 'ttl': ttl, 'recase': rc}, 'gap': gap, 'port': 5353, 'family': 'v4', 'sock': 0,
                               'client': 0, 'oversize': None, 'app': None}
    pos = draw(st.integers(0, len(stream)))
    stream[pos:pos] = [mk(4500, draw(st.booleans()), draw(st.sampled_from([0, 50]))), mk(0, draw(st.booleans()), draw(st.sampled_from([1100, 1500, 5000])))]
    return {'socks': draw(st.sampled_from(['v4', 'dual'])), 'seed': draw(st.integers(0, 10**6)), 'canary_junk': None, 'stream': stream,
            'find': draw(st.sampled_from([60, 600]))}


@st.composite
def _tc_burst_case(draw, tier: str) -> Dict[str, Any]:
    """Directed shape: one address sends a long run of valid truncated (TC) queries, each within the 400-500 ms hold of the
    previous one, and then falls silent - counts around the powers of two a buffer limit would sit at."""
    n_burst = draw(st.sampled_from([8, 9, 15, 16, 17, 18, 31, 32, 33, 34, 64, 65]))
    stream = draw(st.lists(item(), min_size=0, max_size=4))
    client = draw(st.integers(0, 2))
    gap = draw(st.sampled_from([0, 1, 50, 300]))
    burst = [{'d': {'src': 'vquery', 'what': ['ptr', 'srv', 'addr', 'enum'][i % 4], 'qu': bool(i % 3 == 0), 'tc': True, 'qid': 100 + i},
              'gap': gap if i else draw(st.sampled_from([0, 1100])), 'port': 5353, 'family': 'v4', 'sock': 0, 'client': client, 'oversize': None,
              'app': None} for i in range(n_burst)]
    pos = draw(st.integers(0, len(stream)))
    after = [dict(x, gap=max(x['gap'], 1100)) for x in stream[pos:pos + 1]] + stream[pos + 1:]      # silence: the hold runs out
    return {'socks': draw(st.sampled_from(['v4', 'dual'])), 'seed': draw(st.integers(0, 10**6)), 'canary_junk': None,
            'stream': stream[:pos] + burst + after, 'find': None}


@st.composite
def _same_name_other_length_case(draw, tier: str) -> Dict[str, Any]:
    """Directed shape: an instance whose odd label can be written back is announced, is listed in a browser query, is withdrawn
    and purged; then an instance is announced whose label is the same name to a case-insensitive comparison but cannot be written
    back. Whatever the instance remembered about the first must not be applied to the second."""
    stream = draw(st.lists(item(), min_size=0, max_size=4))
    where = 'ptr-target'
    mk = lambda k, ttl, gap: {'d': {'src': 'hresp', 'labels': [KELVIN_PAIR[k]], 'where': where, 'ttl': ttl, 'type_own': False}, 'gap': gap,
                              'port': 5353, 'family': 'v4', 'sock': 0, 'client': 0, 'oversize': None, 'app': None}
    first = draw(st.sampled_from([0, 0, 0, 1]))
    # (a pointer is listed as a known answer only in the first half of its life: the query that lists the second instance is the
    # 75 % refresh of another, ordinary instance of the type announced some 20-35 minutes before it)
    other = {'d': {'src': 'hresp', 'labels': ['41' * 63], 'where': 'ptr-target', 'ttl': 4500, 'type_own': False}, 'gap': 0,
             'port': 5353, 'family': 'v4', 'sock': 0, 'client': 0, 'oversize': None, 'app': None}
    directed = [other, mk(first, 4500, 0), mk(first, 0, draw(st.sampled_from([4000, 5000, 14000]))),
                mk(1 - first, 4500, draw(st.sampled_from([1300000, 2000000])))]
    # (the block comes first: the first instance has to be listed in one of the browser's start-up queries)
    return {'socks': draw(st.sampled_from(['v4', 'dual'])), 'seed': draw(st.integers(0, 10**6)), 'canary_junk': None,
            'stream': directed + stream, 'find': None, 'shape': 'same-name-other-length'}


def strategy(tier: str):
    general = st.fixed_dictionaries({'socks': st.sampled_from(['v4', 'v4', 'dual']), 'seed': st.integers(0, 10**6),
                                     'canary_junk': st.sampled_from([None, 200, 500, 900]),
                                     'find': st.sampled_from([None, None, None, 5, 60]),
                                     'poll_gap': st.sampled_from([None, None, 400, 600, 600, 999]),
                                     'stream': st.lists(item(), min_size=1, max_size=40 if tier == 'thorough' else 25)})
    return st.integers(0, 12).flatmap(lambda k: _cut_announcement_case(tier) if k == 0 else _enumeration_case(tier) if k == 1
                                      else _tc_burst_case(tier) if k == 2 else _same_name_other_length_case(tier) if k == 3 else general)


def build(d: Dict[str, Any]) -> bytes:
    src = d['src']
    if src == 'hostile':
        name = [('l', bytes.fromhex(l)) for l in d['labels']] + [('l', b'local'), ('end',)]
        e = wire.Encoder()
        e.raw_name(name)
        e.buf += bytes([0, d['qtype'], 0x80 if d['qu'] else 0, 1])
        n = 1
        if d['legit_too']:
            e.name(wire.labels_of(TYPE_OWN))
            e.buf += bytes([0, 12, 0, 1])
            n = 2
        return e.finish(0x4242, 0, (n, 0, 0, 0))
    if src == 'vquery':
        q = {'ptr': (TYPE_OWN, 12), 'srv': (OWN['name'], 33), 'addr': (OWN['server'], 1), 'enum': (rp.ENUM, 12)}[d['what']]
        return rp.build_query([(q[0], q[1], d['qu'])], [], qid=d.get('qid', 7), tc=d['tc'])
    if src == 'hresp':
        t = TYPE_OWN if d['type_own'] else TYPE_B
        odd = [('l', bytes.fromhex(l)) for l in d['labels']]
        tl = [('l', x.encode()) for x in t.rstrip('.').split('.')] + [('end',)]
        inst = [('l', b'peer0')] + tl
        body = wire.Encoder()

        def rr(owner, rtype, ttl, rdata_parts) -> None:
            body.raw_name(owner)
            body.buf += bytes([0, rtype, 0, 1]) + ttl.to_bytes(4, 'big')
            pos = len(body.buf)
            body.buf += b'\x00\x00'
            for part in rdata_parts:
                if isinstance(part, bytes):
                    body.buf += part
                else:
                    body.raw_name(part)
            body.buf[pos:pos + 2] = (len(body.buf) - pos - 2).to_bytes(2, 'big')

        n = 0
        if d['where'] == 'ptr-target':
            rr(tl, 12, d['ttl'], [odd + tl]); n += 1
        elif d['where'] == 'srv-target':
            rr(tl, 12, d['ttl'], [inst]); n += 1
            rr(inst, 33, min(d['ttl'], 120), [bytes([0, 0, 0, 0, 0, 99]), odd + [('l', b'local'), ('end',)]]); n += 1
        elif d['where'] == 'ptr-owner':
            # a pointer whose owner is an odd label in front of the type: a browser of the type takes it for one of its own
            rr(odd + tl, 12, d['ttl'], [inst]); n += 1
        elif d['where'] == 'srv-owner':
            rr(odd + tl, 33, min(d['ttl'], 120), [bytes([0, 0, 0, 0, 0, 99]), [('l', b'peerhost'), ('l', b'local'), ('end',)]]); n += 1
        else:
            rr(odd + [('l', b'local'), ('end',)], 1, min(d['ttl'], 120), [bytes([10, 0, 0, 9])]); n += 1
        return body.finish(0, 0x8400, (0, n, 0, 0))
    if src == 'short':
        names = [[x.encode() for x in SHORT_NAMES[i]] for i in d['names']]
        if d['query']:
            return wire.encode({'id': 0, 'flags': 0, 'qd': [{'name': nm, 'type': d['rtype'], 'cls': 1} for nm in names],
                                'an': [], 'ns': [], 'ar': []})
        inst = wire.labels_of('peer3.' + TYPE_B)
        rd = {12: {'target': inst}, 33: {'prio': 0, 'weight': 0, 'port': 9, 'target': wire.labels_of('peerhost.local.')},
              16: {'txt': b'\x00'}, 1: {'addr': bytes([10, 0, 0, 9])}, 47: {'next': inst, 'types': [1]}, 13: {'cpu': b'c', 'os': b'o'}}[d['rtype']]
        rrs = [{'name': nm, 'type': d['rtype'], 'cls': 1, 'ttl': d['ttl'], 'rd': rd} for nm in names]
        if d['with_announcement']:
            rrs.append(rp.wire_rr_of_ident(('PTR', TYPE_B, 'peer3.' + TYPE_B), 4500))
        return wire.encode({'id': 0, 'flags': 0x8400, 'qd': [], 'an': rrs, 'ns': [], 'ar': []})
    if src == 'enum':
        t_ = ['_Printer._tcp.local.', '_scanner._udp.local.'][d['k']]
        if d['recase']:
            t_ = t_.swapcase()
        return wire.encode({'id': 0, 'flags': 0x8400, 'qd': [], 'an': [rp.wire_rr_of_ident(('PTR', rp.ENUM, t_), d['ttl'])], 'ns': [], 'ar': []})
    if src == 'vresp':
        name = f'peer{d["inst"]}.{TYPE_B}'
        rrs = [rp.wire_rr_of_ident(('PTR', TYPE_B, name), d['ttl']),
               rp.wire_rr_of_ident(('SRV', name, 0, 0, 99, 'peerhost.local.'), min(d['ttl'], 120), flush=d['flush'])]
        for k in range(d.get('repeat', 0)):        # legal but unusual: the same record listed again in one datagram
            nm = name.upper() if d.get('recase') and k == 1 else name
            rrs.append(rp.wire_rr_of_ident(('PTR', TYPE_B, nm), d['ttl'] if k == 0 else 4500))
            rrs[-1]['rd']['target'] = wire.labels_of(nm)
        if d.get('addr'):
            ad = {'a': ('A', '0a000009'), 'aaaa-ll': ('AAAA', 'fe80000000000000000000000000abcd'),
                  'aaaa-global': ('AAAA', '20010db8000000000000000000000009')}[d['addr']]
            rrs.append(rp.wire_rr_of_ident((ad[0], 'peerhost.local.', ad[1]), min(d['ttl'], 120), flush=d['flush']))
        data = wire.encode({'id': 0, 'flags': 0x8400, 'qd': [], 'an': rrs, 'ns': [], 'ar': []})
        if d.get('addr') and d.get('cut'):
            data = data[:-d['cut']]
        return data
    return c02.materialise(d)


def known_signature(case: Any, v: Violation):
    return None


class Exec:
    def __init__(self, case: Dict[str, Any]) -> None:
        self.case = case
        self.oversize_changed: Optional[Dict[str, Any]] = None
        self.hostile_valid_legacy = 0
        self.n_valid = 0
        self.n_delivered = 0
        self.second_pointer: set = set()

    def _note_second_pointers(self, data: bytes) -> None:
        """domain bookkeeping only: pointer records owned by a name that merely ends in the browsed type"""
        from zeroconf import DNSIncoming

        found = []
        try:
            m = wire.strict_decode_lenient_len(data)
            found += [(wire.name_text(r['name']), wire.name_text(r['rd']['target'])) for r in m['an'] + m['ns'] + m['ar']
                      if r['type'] == 12 and isinstance(r.get('rd'), dict) and 'target' in r['rd']]
        except BaseException:  # noqa
            pass
        try:
            inc = DNSIncoming(data)
            if inc.valid:
                found += [(r.name, r.alias) for r in inc.answers() if r.type == 12 and hasattr(r, 'alias')]
        except BaseException:  # noqa
            pass
        for owner, alias in found:
            o = owner.lower()
            if o != TYPE_B.lower() and o.endswith('.' + TYPE_B.lower()):
                self.second_pointer.add(alias.lower())

    def _state(self, w: sim.World, v: sim.Host, lst: sim.RecListener) -> Tuple:
        cache = tuple(sorted((k, repr(r), r.created, r.ttl) for k, store in v.zc.cache.cache.items() for r in store))
        return (len(w.net.trace), hash(cache), len(lst.events), len(w.errors))

    async def main(self, w: sim.World) -> None:
        from zeroconf import DNSIncoming
        from zeroconf.asyncio import AsyncServiceBrowser, AsyncServiceInfo

        case = self.case
        socks = [('v4', '10.0.0.1')] if case['socks'] == 'v4' else [('v4', '10.0.0.1'), ('v6', 'fe80::1')]
        v = w.add_host('V', socks=socks, single=case['socks'] == 'v4')
        await v.zc.async_wait_for_start()
        task = await v.azc.async_register_service(sim.make_service_info(OWN))
        await task
        lst = sim.RecListener(w)
        self.lst = lst
        self.browser = AsyncServiceBrowser(v.zc, TYPE_B, listener=lst)
        await asyncio.sleep(1.5)
        self.lookup = asyncio.ensure_future(AsyncServiceInfo(TYPE_B, LOOKUP_NAME).async_request(v.zc, 10000))
        self.side: List[Any] = []
        self.finder: Any = None
        if case.get('find'):
            # the application is enumerating the service types on the link while the stream arrives (its listener lives in the library)
            from zeroconf.asyncio import AsyncZeroconfServiceTypes

            self.finder = asyncio.ensure_future(AsyncZeroconfServiceTypes.async_find(aiozc=v.azc, timeout=case['find']))
            await asyncio.sleep(0.01)
        self.side_cancelled = 0
        rnd = random.Random(case['seed'])
        for it in case['stream']:
            if it['gap']:
                await asyncio.sleep(it['gap'] / 1000.0)
            try:
                data = build(it['d'])
            except Exception as e:  # noqa  - generator problem, not the library's
                raise HarnessError(f'cannot render stream item: {e!r}')
            if it['oversize']:
                pad = it['oversize'] - len(data)
                if pad > 0:
                    data = data + bytes(rnd.getrandbits(8) for _ in range(min(pad, 256))) * (pad // 256 + 1)
                data = data[:it['oversize']] if len(data) >= it['oversize'] else data + b'\0' * (it['oversize'] - len(data))
            else:
                data = data[:8966]
            eps = [e for e in v.endpoints if ('v6' if e.sock.family == 10 else 'v4') == it['family'] or (it['family'] == 'v4' and e.sock.dual)]
            if not eps:
                eps = v.endpoints
            ep = eps[it['sock'] % len(eps)]
            if ep.sock.family == 10:
                ip = ('fe80::%d' % (70 + it['client'])) if it['family'] == 'v6' else ('::ffff:10.0.0.%d' % (70 + it['client']))
                src: Tuple = (ip, it['port'], 0, 2)
            else:
                src = ('10.0.0.%d' % (70 + it['client']), it['port'])
            before = self._state(w, v, lst) if len(data) > 8966 else None
            self.n_delivered += 1
            app = it.get('app')
            if app == 'start-lookup':
                nm = f"peer{it['d'].get('inst', 0)}.{TYPE_B}" if it['d'].get('src') == 'vresp' else LOOKUP_NAME
                self.side.append(asyncio.ensure_future(AsyncServiceInfo(TYPE_B, nm).async_request(v.zc, 3000)))
                await asyncio.sleep(0.01)          # it has sent its first query and is waiting
                before = self._state(w, v, lst) if len(data) > 8966 else None
            elif app == 'cancel-lookup':
                pend = [t for t in self.side if not t.done()]
                if pend:
                    pend[-1].cancel()              # and, before the cancelled task runs again, the datagram below arrives
                    self.side_cancelled += 1
            try:
                ep.proto.datagram_received(data, src)
            except HarnessError:
                raise
            except BaseException as e:  # noqa
                if isinstance(e, (KeyboardInterrupt, SystemExit)):
                    raise
                w._on_loop_exception(w.loop, {'message': 'exception in datagram_received', 'exception': e})
                self.failing_item = {'len': len(data), 'head': data[:48].hex(), 'port': it['port'], 'family': it['family'],
                                     'src': it['d'].get('src')}
            if before is not None:
                after = self._state(w, v, lst)      # datagram_received is synchronous: an ignored datagram leaves no trace
                if after != before and self.oversize_changed is None:
                    self.oversize_changed = {'len': len(data), 'before': before, 'after': after}
            elif it['port'] != 5353:
                try:
                    inc = DNSIncoming(data)
                    if inc.valid:
                        try:
                            wire.strict_decode(data)
                        except wire.Reject:
                            self.hostile_valid_legacy += 1
                except BaseException:  # noqa  (classification only)
                    pass
            self._note_second_pointers(data)
            if w.errors:
                return
        # ---- canary --------------------------------------------------------------------------------------
        await asyncio.sleep(2.0)
        self.canary: Dict[str, Any] = {}
        ep = v.endpoints[0]
        csrc4 = ('10.0.0.200', 45000)
        src = csrc4 if ep.sock.family != 10 else ('::ffff:10.0.0.200', 45000, 0, 2)
        # the canary queries are byte-identical to plain queries the stream may have carried earlier (a poller repeats itself), and
        # may be preceded by one more unparsable datagram a few hundred ms earlier: neither may make the instance ignore them
        junk_ms = case.get('canary_junk')

        async def junk_then_wait() -> None:
            if junk_ms:
                ep.proto.datagram_received(b'\x12\x34' + b'\xff' * 20, ('10.0.0.203', 5353) if ep.sock.family != 10 else ('::ffff:10.0.0.203', 5353, 0, 2))
                await asyncio.sleep(junk_ms / 1000.0)

        await junk_then_wait()
        n0 = len(w.net.trace)
        ep.proto.datagram_received(rp.build_query([(OWN['name'], 33, False)], [], qid=7), src)
        self.canary['legacy'] = [e for e in w.net.trace[n0:] if e['port'] == 45000]
        # the same poller asks again, byte for byte, more than a second later (possibly right after another unparsable datagram)
        # (twice: the first answer may also be multicast and heard back, which makes the instance's own answer the last datagram seen)
        self.canary['legacy_again'] = []
        for _ in range(2):
            await asyncio.sleep(1.2)
            await junk_then_wait()
            n0b = len(w.net.trace)
            ep.proto.datagram_received(rp.build_query([(OWN['name'], 33, False)], [], qid=7), src)
            self.canary['legacy_again'].append([e for e in w.net.trace[n0b:] if e['port'] == 45000])
        # a poller that repeats itself faster than once a second: a copy may be taken for a link-layer duplicate of the copy that was
        # *handled* less than a second earlier - but not of one that was itself dropped; so a copy arriving a second or more after the
        # last answered one has to be answered (what this stream of identical datagrams must not do is silence the instance)
        pg = case.get('poll_gap')
        self.canary['poll'] = []
        if pg:
            await asyncio.sleep(1.2)
            psrc = ('10.0.0.204', 45001) if ep.sock.family != 10 else ('::ffff:10.0.0.204', 45001, 0, 2)
            pq = rp.build_query([(OWN['name'], 33, False)], [], qid=9)
            last_answered = None
            for i in range(6):
                if i:
                    await asyncio.sleep(pg / 1000.0)
                n0p = len(w.net.trace)
                t_ = w.clock.t
                ep.proto.datagram_received(pq, psrc)
                got = any((m := sim.decode_trace_entry(e)) and m['id'] == 9 and any(r['type'] == 33 for r in m['an'])
                          for e in w.net.trace[n0p:] if e['port'] == 45001)
                due = last_answered is None or t_ - last_answered >= 1.0
                self.canary['poll'].append({'i': i, 't_ms': round(t_ * 1000), 'answered': got, 'due': due})
                if got:
                    last_answered = t_
        src2 = ('10.0.0.201', 5353) if ep.sock.family != 10 else ('::ffff:10.0.0.201', 5353, 0, 2)
        await asyncio.sleep(1.2)
        await junk_then_wait()
        n1 = len(w.net.trace)
        ep.proto.datagram_received(rp.build_query([(TYPE_OWN, 12, False)], [], qid=7), src2)
        await asyncio.sleep(1.3)
        self.canary['qm'] = [e for e in w.net.trace[n1:] if e['host'] == 'V' and e['dst'] in (sim.MDNS4, sim.MDNS6)]
        n_ev = len(lst.events)
        data = wire.encode({'id': 0, 'flags': 0x8400, 'qd': [], 'an': [rp.wire_rr_of_ident(('PTR', TYPE_B, 'canary-instance.' + TYPE_B), 4500)],
                            'ns': [], 'ar': []})
        src3 = ('10.0.0.202', 5353) if ep.sock.family != 10 else ('::ffff:10.0.0.202', 5353, 0, 2)
        ep.proto.datagram_received(data, src3)
        await asyncio.sleep(0.01)
        self.canary['added'] = [e for e in lst.events[n_ev:] if e['kind'] == 'add' and e['name'].lower().startswith('canary-instance.')]
        # every instance the stream talked about is announced again, well-formed and alone: the browser must then report it
        used = sorted({it['d']['inst'] for it in case['stream'] if it['d'].get('src') == 'vresp'})
        for k in used:
            await asyncio.sleep(1.5)
            name = f'peer{k}.{TYPE_B}'
            ann = wire.encode({'id': 0, 'flags': 0x8400, 'qd': [], 'an': [
                rp.wire_rr_of_ident(('PTR', TYPE_B, name), 4500),
                rp.wire_rr_of_ident(('SRV', name, 0, 0, 99, 'peerhost.local.'), 120, flush=True)], 'ns': [], 'ar': []})
            ep.proto.datagram_received(ann, src3)
        await asyncio.sleep(0.01)
        live = lst.live().get(TYPE_B, set())
        # not judged: instances the stream also advertised through a pointer owned by a longer name (`x._b._tcp.local.`), which a
        # browser of the type takes for a subtype pointer of its own - two pointers to one instance, expiring independently, are
        # outside the domain in which the browser's add/remove bookkeeping is defined (C04 says so explicitly)
        self.canary['reannounced_missing'] = [f'peer{k}.{TYPE_B}' for k in used if f'peer{k}.{TYPE_B}' not in live
                                              and f'peer{k}.{TYPE_B}'.lower() not in self.second_pointer]
        self.canary['reannounce_judged'] = len([k for k in used if f'peer{k}.{TYPE_B}'.lower() not in self.second_pointer])
        # a peer that announces itself twice with the very same bytes, 1.7-2.1 s apart (possibly with an unparsable datagram in
        # between): the second copy is not a link-layer duplicate and has to refresh the cache - its 2 s SRV record must still be
        # usable 3 s after the first copy
        cname = 'canary2.' + TYPE_B
        ann2 = wire.encode({'id': 0, 'flags': 0x8400, 'qd': [], 'an': [
            rp.wire_rr_of_ident(('PTR', TYPE_B, cname), 4500),
            rp.wire_rr_of_ident(('SRV', cname, 0, 0, 99, 'canaryhost.local.'), 2, flush=True),
            rp.wire_rr_of_ident(('TXT', cname, '00'), 4500, flush=True),
            rp.wire_rr_of_ident(('A', 'canaryhost.local.', '0a090909'), 120, flush=True)], 'ns': [], 'ar': []})
        await asyncio.sleep(1.5)
        t_first = w.clock.t
        ep.proto.datagram_received(ann2, src3)
        await asyncio.sleep(1.2)
        if junk_ms:
            await junk_then_wait()
        else:
            await asyncio.sleep(0.5)
        ep.proto.datagram_received(ann2, src3)
        await asyncio.sleep(max(0.0, t_first + 3.0 - w.clock.t))
        n2 = len(w.net.trace)
        try:
            self.canary['refreshed_lookup'] = await AsyncServiceInfo(TYPE_B, cname).async_request(v.zc, 300)
        except BaseException as e:  # noqa
            self.canary['refreshed_lookup'] = repr(e)
        # a peer that repeats one announcement faster than once a second (identical bytes, nothing of ours in between: it asks for
        # nothing): copies may be dropped as duplicates of the copy *handled* less than a second before, so of any two consecutive
        # copies 600-999 ms apart one is handled, and the 2 s SRV record is still usable half a second after the last copy
        self.canary['repeater_lookup'] = None
        if pg:
            rname = 'canary3.' + TYPE_B
            ann3 = wire.encode({'id': 0, 'flags': 0x8400, 'qd': [], 'an': [
                rp.wire_rr_of_ident(('PTR', TYPE_B, rname), 4500),
                rp.wire_rr_of_ident(('SRV', rname, 0, 0, 99, 'canary3host.local.'), 2, flush=True),
                rp.wire_rr_of_ident(('TXT', rname, '00'), 4500, flush=True),
                rp.wire_rr_of_ident(('A', 'canary3host.local.', '0a09090a'), 120, flush=True)], 'ns': [], 'ar': []})
            await asyncio.sleep(1.5)
            for i in range(4200 // pg + 2):
                if i:
                    await asyncio.sleep(pg / 1000.0)
                ep.proto.datagram_received(ann3, src3)
            await asyncio.sleep(0.5)
            try:
                self.canary['repeater_lookup'] = await AsyncServiceInfo(TYPE_B, rname).async_request(v.zc, 300)
            except BaseException as e:  # noqa
                self.canary['repeater_lookup'] = repr(e)
        await asyncio.sleep(11.0)
        # everything armed by the stream has fired by now (refresh schedules run at 75-95 % of up to 4500 s)
        await asyncio.sleep(4600.0)
        self.lookup_state = ('done', self.lookup.exception() if not self.lookup.cancelled() else 'cancelled') if self.lookup.done() else ('pending', None)
        # lookups the application started during the stream: returned, or were cancelled by it - nothing else
        self.finder_state = None
        if self.finder is not None:
            self.finder_state = 'pending' if not self.finder.done() else repr(self.finder.exception()) if self.finder.exception() else 'ok'
        self.side_state = [('pending' if not t.done() else 'cancelled' if t.cancelled() else repr(t.exception()) if t.exception() else 'ok')
                           for t in self.side]


def check(case: Dict[str, Any]) -> Dict[str, Any]:
    ex = Exec(case)
    with sim.World(jitter_seed=case['seed']) as w:
        w.run(ex.main(w))
        errors = list(w.errors)
    if errors:
        e = errors[0]
        raise Violation('exception escaped into the event loop: ' + str(e.get('exception'))[:160],
                        {'error': e, 'datagram': getattr(ex, 'failing_item', None), 'n_delivered': ex.n_delivered},
                        tag='loop-exception:' + str(e.get('type')))
    if ex.oversize_changed is not None:
        raise Violation('a datagram larger than 8966 bytes was not ignored (it caused a send, a cache change or a callback)',
                        ex.oversize_changed, tag='oversize-not-ignored')
    legacy_ok = False
    for e in ex.canary['legacy']:
        m = sim.decode_trace_entry(e)
        if m and m['id'] == 7 and any(r['type'] == 33 for r in m['an']):
            legacy_ok = True
    if not legacy_ok:
        raise Violation('after the stream a well-formed legacy query is no longer answered by unicast', {'replies': len(ex.canary['legacy'])},
                        tag='canary-legacy')
    again_ok = all(any((m := sim.decode_trace_entry(e)) and m['id'] == 7 and any(r['type'] == 33 for r in m['an']) for e in es)
                   for es in ex.canary['legacy_again'])
    if not again_ok:
        raise Violation('the same well-formed legacy query, repeated more than a second later, is no longer answered',
                        {'replies': [len(es) for es in ex.canary['legacy_again']], 'unparsable_datagram_ms_before': case.get('canary_junk')},
                        tag='canary-legacy-repeat')
    missed = [x for x in ex.canary.get('poll', []) if x['due'] and not x['answered']]
    if missed:
        raise Violation('a poller repeats one well-formed legacy query faster than once a second: a copy that arrived a second or more '
                        'after the last answered copy was not answered', {'poll_gap_ms': case.get('poll_gap'), 'copies': ex.canary['poll']},
                        tag='canary-poller-silenced')
    qm_ok = False
    for e in ex.canary['qm']:
        m = sim.decode_trace_entry(e)
        if m and m['flags'] & 0x8000 and any(rp.ident_of_wire_rr(r) == ('PTR', TYPE_OWN, OWN['name'].lower()) and r['ttl'] > 0 for r in m['an']):
            qm_ok = True
    if not qm_ok:
        raise Violation('after the stream a well-formed QM query is no longer answered by multicast within 1.3 s',
                        {'multicasts': len(ex.canary['qm'])}, tag='canary-qm')
    if not ex.canary['added']:
        raise Violation('after the stream an announcement no longer reaches the browser', None, tag='canary-browser')
    if ex.canary.get('refreshed_lookup') is not True:
        raise Violation('a peer announced itself twice with identical bytes about two seconds apart; the second copy did not refresh the '
                        'cache (a lookup that needs the refreshed 2 s SRV record fails)',
                        {'lookup': ex.canary.get('refreshed_lookup'), 'unparsable_datagram_ms_before_second_copy': case.get('canary_junk')},
                        tag='canary-repeat-not-processed')
    if ex.canary.get('repeater_lookup') not in (None, True):
        raise Violation('a peer repeated one announcement faster than once a second for more than four seconds: the copies that came a '
                        'second or more after the last handled copy were not handled (its 2 s SRV record is gone half a second after '
                        'the last copy)', {'lookup': ex.canary.get('repeater_lookup'), 'gap_ms': case.get('poll_gap')},
                        tag='canary-repeater-silenced')
    if ex.canary.get('reannounced_missing'):
        raise Violation('an instance the stream had mentioned was announced again (well-formed, alone) after the stream and the browser '
                        'does not report it', {'instances': ex.canary['reannounced_missing'],
                                               'callbacks': [(e['kind'], e['name']) for e in ex.lst.events][-8:]}, tag='canary-reannounce')
    bad_side = [x for x in getattr(ex, 'side_state', []) if x not in ('ok', 'cancelled')]
    if bad_side:
        raise Violation('a lookup started by the application during the stream hung or raised', {'states': bad_side[:4]}, tag='side-lookup-died')
    if ex.lookup_state[0] != 'done' or ex.lookup_state[1] is not None:
        raise Violation('the lookup in progress died or hung', {'state': str(ex.lookup_state)}, tag='lookup-died')
    task = ex.browser._query_sender_task
    if task is not None and task.done() and not task.cancelled() and task.exception() is not None:
        raise Violation('the browser\'s query task died', {'exc': repr(task.exception())}, tag='browser-task-died')
    classes = ['socks-' + case['socks']]
    srcs = {it['d'].get('src') for it in case['stream']}
    classes += ['src-' + str(s_) for s_ in sorted(map(str, srcs))]
    if any(it['oversize'] for it in case['stream']):
        classes.append('oversized')
    if ex.hostile_valid_legacy:
        classes.append('hostile-but-parsable-from-legacy-port')
    if getattr(ex, 'side_cancelled', 0):
        classes.append('application-cancelled-a-lookup-as-a-datagram-arrived')
    if getattr(ex, 'finder_state', None) not in (None, 'ok'):
        raise Violation('the type enumeration the application was running (AsyncZeroconfServiceTypes.async_find) died or hung',
                        {'state': ex.finder_state}, tag='finder-' + str(ex.finder_state)[:40])
    if case.get('shape'):
        classes.append('directed-' + case['shape'])
    if case.get('poll_gap'):
        classes.append('poller-repeating-itself-faster-than-once-a-second')
    if case.get('find'):
        classes.append('type-enumeration-running-during-the-stream')
    if ex.canary.get('reannounce_judged'):
        classes.append('instance-of-the-stream-announced-again-and-judged')
    if ex.second_pointer:
        classes.append('second-pointer-from-longer-owner-name (instance not judged on re-announcement)')
    return {'nontrivial': ex.hostile_valid_legacy > 0, 'classes': classes, 'max': {'stream': len(case['stream'])},
            'sample': {'case': {'socks': case['socks'], 'n': len(case['stream']), 'first': case['stream'][0]}}}
