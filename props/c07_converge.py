"""C07 - End-to-end discovery converges to the set of registered services."""
from __future__ import annotations

import asyncio
from typing import Any, Dict, List, Optional, Set, Tuple

from hypothesis import strategies as st

from vlib import responder as rp, sim, wire
from vlib.core import HarnessError, Violation

ID = 'C07'
LEVEL = 'fault_enumeration'
RULE = ('Scenarios of 2-5 simulated hosts running the library, 1-6 services of 1-3 types with unique instance names, 1-4 browsers '
        'started before/during/after registration, and register / update(port|text|addresses) / unregister / close_host / '
        'cancel_browser operations at generated virtual times within 40 s; a third of the scenarios with >= 3 hosts add a withdrawal '
        'race (two freshly joined hosts start browsing a type 150-950 ms apart, mostly with question_type=QM, and a service of that type, sharing its host name with '
        'a sibling, is unregistered 20-900 ms later); every datagram gets an independent 0-100 ms delay per '
        'receiver (reordering arises naturally), optional 20 % duplication, seeded or end-point jitter. Each scenario is first run '
        'without loss to obtain its trace of N datagrams and then re-run with datagram k dropped (for all receivers or one) - three '
        'drawn k in the quick tier (uniform, aimed at query/answer exchanges, or aimed at goodbyes), every k for scenarios with N <= 120 in the thorough tier (complete single-fault enumeration for '
        'that schedule). Oracle at last-change + 20 s: every active browser on an open host reports exactly the instances of its '
        'types that are registered on open hosts (case-insensitive) with Added/Removed alternating; a service-info lookup started '
        'from inside each Added callback returns True with the registered host, port, TXT and address set when the service was not '
        'changed meanwhile. Non-trivial = a run in which the dropped datagram is one some receiver used in the no-loss run (it '
        'changed a cache or caused a callback), or a browser started while a registration was in flight.')
ASSUMPTIONS = [
    'operations on one host are issued sequentially and each awaits the broadcast task the API returns (registering and withdrawing one '
    'service concurrently is C08/C17 territory); operations on one service are >= 1.5 s apart (cache-flush needs records older than 1 s)',
    'settling bound 20 s (fourth start-up query at +14.12 s answered within 1.2 s)',
    'evaluations counts executed runs (one no-loss run plus its single-drop re-runs per generated scenario)',
]
BUDGET = {'quick': {'examples': 1000}, 'thorough': {'examples': 2500, 'shards': 16}}
TYPES = ['_http._tcp.local.', '_ipp._tcp.local.', '_ssh._tcp.local.']
SETTLE_S = 20.0
TIER = {'name': 'quick'}


@st.composite
def scenario(draw) -> Dict[str, Any]:
    n_hosts = draw(st.integers(2, 5))
    n_svc = draw(st.integers(1, 6))
    services = []
    for i in range(n_svc):
        ti = draw(st.integers(0, 2))
        services.append({'host': draw(st.integers(0, n_hosts - 1)), 'type': ti,
                         'label': draw(st.sampled_from(['svc', 'Svc', 'My Device', 'dotted.name'])) + str(i),
                         'addrs': draw(st.sampled_from([['v4'], ['v6'], ['v4', 'v6']])), 'port': 8000 + i,
                         'props': draw(st.sampled_from(['', '0161', '0361623d'])),
                         # SRV and address records normally live 120 s; a short host TTL lets them expire in peer caches (purged every
                         # 10 s) within the scenario, so later lookups have to ask again
                         'host_ttl': draw(st.sampled_from([120, 120, 120, 10]))})
    browsers = [{'host': draw(st.integers(0, n_hosts - 1)), 'types': draw(st.lists(st.integers(0, 2), min_size=1, max_size=3, unique=True).map(sorted)),
                 'at': draw(st.one_of(st.sampled_from([0, 0, 500, 1000, 5000]), st.integers(0, 30000))),
                 'qtype': draw(st.sampled_from([None, None, None, 'QM', 'QU']))}
                for _ in range(draw(st.integers(1, 4)))]
    ops = []
    for i in range(n_svc):
        ops.append({'t': draw(st.one_of(st.sampled_from([0, 100, 900, 3000]), st.integers(0, 20000))), 'op': 'register', 'svc': i})
    for _ in range(draw(st.integers(0, 6))):
        kind = draw(st.sampled_from(['update', 'update', 'unregister', 'unregister', 'close_host', 'cancel_browser', 'reregister']))
        op: Dict[str, Any] = {'t': draw(st.integers(0, 40000)), 'op': kind}
        if kind in ('update', 'unregister', 'reregister'):
            op['svc'] = draw(st.integers(0, n_svc - 1))
            op['what'] = draw(st.sampled_from(['port', 'text', 'addrs']))
        elif kind == 'close_host':
            op['host'] = draw(st.integers(0, n_hosts - 1))
        else:
            op['browser'] = draw(st.integers(0, len(browsers) - 1))
        ops.append(op)
    joins = [draw(st.sampled_from(['start', 'late', 'late'])) for _ in range(n_hosts)]
    restart = False
    # services of one machine normally share its host name (and then its address set); the other half of the scenarios keeps
    # one host name per service so that address sets can differ and change per service
    shared = draw(st.booleans())
    host_addrs = [draw(st.sampled_from([['v4'], ['v6'], ['v4', 'v6']])) for _ in range(n_hosts)]
    if n_hosts >= 3 and draw(st.integers(0, 2)) == 0:
        # withdrawal race: a service that shares its host name with a sibling is unregistered while an answer for it is still
        # queued - two freshly joined hosts start browsing its type a few hundred ms apart (the reply to the first makes the reply
        # to the second wait in the one-second protection queue) and the unregister falls in between
        shared = True
        x, y = n_hosts - 1, n_hosts - 2
        for sv in services:
            if sv['host'] >= y:
                sv['host'] = sv['host'] % y
        for b in browsers:
            if b['host'] >= y:
                b['host'] = b['host'] % y
        ops = [o for o in ops if not (o['op'] == 'close_host' and o['host'] >= y)]
        k = draw(st.integers(0, n_svc - 1))
        if not any(i != k and sv['host'] == services[k]['host'] for i, sv in enumerate(services)) and n_svc >= 6:
            services[(k + 1) % n_svc]['host'] = services[k]['host']
        if not any(i != k and sv['host'] == services[k]['host'] for i, sv in enumerate(services)):
            services.append({'host': services[k]['host'], 'type': draw(st.integers(0, 2)), 'label': 'sibling' + str(n_svc),
                             'addrs': list(services[k]['addrs']), 'port': 8000 + n_svc, 'props': '', 'host_ttl': 120})
            ops.append({'t': 0, 'op': 'register', 'svc': n_svc})
        t_reg = next(o['t'] for o in ops if o['op'] == 'register' and o['svc'] == k)
        t1 = t_reg + draw(st.integers(4000, 12000))
        d1 = draw(st.integers(150, 950))
        browsers = browsers[:2] + [{'host': x, 'types': [services[k]['type']], 'at': t1, 'qtype': draw(st.sampled_from(['QM', 'QM', None]))},
                                   {'host': y, 'types': [services[k]['type']], 'at': t1 + d1, 'qtype': draw(st.sampled_from(['QM', 'QM', None]))}]
        ops = [o for o in ops if not (o.get('svc') == k and o['op'] != 'register')]
        ops = [o for o in ops if not (o['op'] == 'cancel_browser' and o['browser'] >= len(browsers) - 2)]
        t_un = t1 + d1 + draw(st.integers(20, 900))
        ops.append({'t': t_un, 'op': 'unregister', 'svc': k, 'what': 'port'})
        if draw(st.booleans()):
            # ... and the whole machine goes away right after (its remaining services are withdrawn by the close)
            ops = [o for o in ops if o['op'] != 'close_host']
            ops.append({'t': t_un + draw(st.integers(1, 400)), 'op': 'close_host', 'host': services[k]['host']})
        joins[x] = joins[y] = 'late'
    if not shared and draw(st.integers(0, 3)) == 0:
        # address flip-flop: a service changes its IPv4 address and changes it back (so a peer's cache holds an older record that is
        # valid again next to a newer one that was flushed), and a browser is started on a long-present host 1-8 s later, inside
        # the 10 s during which the flushed record is still in that cache: its lookup has to come out right
        k = draw(st.integers(0, n_svc - 1))
        if 'v4' not in services[k]['addrs']:
            services[k]['addrs'] = ['v4'] + [a for a in services[k]['addrs'] if a != 'v4']
        t_reg = next(o['t'] for o in ops if o['op'] == 'register' and o['svc'] == k)
        t1 = t_reg + draw(st.integers(3000, 8000))
        ops = [o for o in ops if not (o.get('svc') == k and o['op'] != 'register')]
        ops = [o for o in ops if not (o['op'] == 'close_host' and o['t'] < t1 + 15000)]
        ops.append({'t': t1, 'op': 'update', 'svc': k, 'what': 'addrs'})
        ops.append({'t': t1 + draw(st.integers(1600, 4000)), 'op': 'update', 'svc': k, 'what': 'addrs'})
        hb = draw(st.integers(0, n_hosts - 1))
        joins[hb] = 'start'
        browsers = browsers[:3] + [{'host': hb, 'types': [services[k]['type']], 'at': t1 + 2400 + draw(st.integers(1200, 8000)), 'qtype': None}]
        ops = [o for o in ops if not (o['op'] == 'cancel_browser' and o['browser'] >= len(browsers) - 1)]
    elif draw(st.integers(0, 4)) == 0:
        # quick restart: a service is withdrawn a few seconds after it came up and registered again within ten seconds of its first
        # announcement; the browsers that watched must keep it alive through a later second look
        k = draw(st.integers(0, n_svc - 1))
        t_reg = next(o['t'] for o in ops if o['op'] == 'register' and o['svc'] == k)
        ops = [o for o in ops if not (o.get('svc') == k and o['op'] != 'register')]
        ops = [o for o in ops if not (o['op'] == 'close_host' and o['t'] < t_reg + 20000)]
        t_un = t_reg + draw(st.integers(1600, 4000))
        ops.append({'t': t_un, 'op': 'unregister', 'svc': k, 'what': 'port'})
        ops.append({'t': t_un + draw(st.integers(1600, 4000)), 'op': 'reregister', 'svc': k, 'what': 'port', 'reuse': draw(st.booleans())})
        hb = draw(st.integers(0, n_hosts - 1))
        joins[hb] = 'start'
        browsers = [{'host': hb, 'types': [services[k]['type']], 'at': max(0, t_reg - draw(st.integers(0, 2000))), 'qtype': None}] + browsers[:3]
        ops = [o for o in ops if o['op'] != 'cancel_browser']
        restart = True
    elif draw(st.integers(0, 5)) == 0:
        # hasty withdrawal: a service registered through the legacy `ttl=` argument is withdrawn 0-440 ms after the registration
        # call returned, while its three announcements are still going out (the application did not wait for them)
        k = draw(st.integers(0, n_svc - 1))
        t_reg = next(o['t'] for o in ops if o['op'] == 'register' and o['svc'] == k)
        ops = [o for o in ops if not (o.get('svc') == k and o['op'] != 'register')]
        ops = [o for o in ops if not (o['op'] == 'close_host' and o['t'] < t_reg + 20000)]
        services[k]['ttl_arg'] = draw(st.sampled_from([1200, 3000, 4500]))
        services[k]['no_await'] = True
        if draw(st.booleans()):
            ops.append({'t': t_reg + 350 + draw(st.integers(0, 440)), 'op': 'unregister', 'svc': k, 'what': 'port'})
        else:
            # ... or replaced through async_update_service with a new ServiceInfo (another port) while they are still going out
            ops.append({'t': t_reg + 350 + draw(st.integers(0, 440)), 'op': 'update', 'svc': k, 'what': 'port'})
        hb = draw(st.integers(0, n_hosts - 1))
        joins[hb] = 'start'
        browsers = [{'host': hb, 'types': [services[k]['type']], 'at': max(0, t_reg - draw(st.integers(0, 2000))), 'qtype': None}] + browsers[:3]
        ops = [o for o in ops if o['op'] != 'cancel_browser']
    elif draw(st.integers(0, 3)) == 0:
        # text (or port) flip-flop: changed and changed back 1.6-4 s later; a peer's cache then holds the first record again valid,
        # and the flushed one for up to 10 s more. A browser started on a long-present host inside that time looks the service up.
        k = draw(st.integers(0, n_svc - 1))
        what = draw(st.sampled_from(['text', 'text', 'port']))
        t_reg = next(o['t'] for o in ops if o['op'] == 'register' and o['svc'] == k)
        t1 = t_reg + draw(st.integers(3000, 8000))
        ops = [o for o in ops if not (o.get('svc') == k and o['op'] != 'register')]
        ops = [o for o in ops if not (o['op'] == 'close_host' and o['t'] < t1 + 15000)]
        ops.append({'t': t1, 'op': 'update', 'svc': k, 'what': what})
        t2 = t1 + draw(st.integers(1600, 4000))
        ops.append({'t': t2, 'op': 'update', 'svc': k, 'what': what + '-back'})
        hb = draw(st.integers(0, n_hosts - 1))
        joins[hb] = 'start'
        browsers = browsers[:3] + [{'host': hb, 'types': [services[k]['type']], 'at': t2 + draw(st.integers(1200, 9000)), 'qtype': None}]
        ops = [o for o in ops if not (o['op'] == 'cancel_browser' and o['browser'] >= len(browsers) - 1)]
    case = {'shared': shared, 'host_addrs': host_addrs,'seed': draw(st.integers(0, 10**6)), 'hosts': n_hosts, 'joins': joins, 'max_delay': draw(st.sampled_from([0, 20, 100, 100])),
            'dup_pct': draw(st.sampled_from([0, 0, 20])), 'jitter': draw(st.sampled_from(['seed', 'seed', 'seed', 'ends'])),
            'services': services, 'browsers': browsers, 'ops': ops,
            # a third of the scenarios are looked at a second time 80 or 160 minutes after the settling point (past one or two
            # full pointer lifetimes): the refresh queries of the browsers have to keep every registered instance reported
            'late_s': draw(st.sampled_from([0, 0, 0, 0, 4800, 9600])) if not restart else draw(st.sampled_from([0, 4800, 4800, 9600])),
            # ... and in those, one more browser may be started long after everything has settled (past half of the pointer TTL, when
            # the host's cache entries are stale but valid), on any host: it has to report the registered instances like the others
            'late_browser': draw(st.sampled_from([None, {'host': draw(st.integers(0, n_hosts - 1)), 'types': draw(st.lists(st.integers(0, 2), min_size=1, max_size=3, unique=True).map(sorted)),
                                                         'at_s': draw(st.sampled_from([600, 2100, 2200, 2300, 2400, 3000, 3500])),
                                                         # (it may be cancelled half a minute later: its questions were asked, it refreshes nothing)
                                                         'cancel': draw(st.booleans())}])),
            'drops': [[draw(st.integers(0, 999)), draw(st.sampled_from(['all', 'one'])), draw(st.sampled_from(['any', 'critical', 'critical', 'goodbye', 'goodbye-last']))]
                      for _ in range(3)]}
    lb = case['late_browser']
    if lb is not None and case['late_s'] and draw(st.integers(0, 2)) == 0:
        # ... or exactly when a pointer that nobody refreshed (no other browser of that type anywhere on the link) has just run out
        # in that host's cache and waits for the ten-second purge
        ti = draw(st.sampled_from(sorted({sv['type'] for sv in services})))
        for b in case['browsers']:
            b['types'] = sorted({t if t != ti else (ti + 1) % 3 for t in b['types']})
        lb['types'], lb['at_s'] = [ti], 'expiry'
    if not restart and draw(st.integers(0, 7)) == 0:
        # long haul: a machine joins the link when the pointers in everybody's cache are 45-50 % of their lifetime old, browses for
        # half a minute and is gone again (its first questions are answered by multicast, which renews the cached copies of all the
        # others in the first half of their life); the browsers that were there from the start are looked at again 160 minutes later
        ti = draw(st.sampled_from(sorted({sv['type'] for sv in services})))
        case['late_s'] = 9600
        case['late_browser'] = {'host': 0, 'types': sorted({ti} | set(draw(st.lists(st.integers(0, 2), max_size=1)))),
                                'at_s': draw(st.sampled_from([2050, 2100, 2150, 2200])), 'cancel': True, 'new_host': True,
                                'leave': draw(st.booleans())}
        case['ops'] = [o for o in case['ops'] if not (o['op'] == 'cancel_browser' and o['browser'] == 0)]
        b0 = case['browsers'][0]
        b0['types'] = sorted(set(b0['types']) | {ti})
    return case


def strategy(tier: str):
    TIER['name'] = tier
    return scenario()


def known_signature(case: Any, v: Violation):
    return None


def host_ip(h: int, fam: str) -> str:
    return {'v4': f'10.0.0.{h + 1}', 'v4b': f'10.0.1.{h + 1}', 'v6': f'fe80::{h + 1}'}[fam]


def desc_of(s: Dict[str, Any], version: Dict[str, Any]) -> Dict[str, Any]:
    t = TYPES[s['type']]
    if version.get('shared'):
        addrs = [host_ip(s['host'], f) for f in version['shared']]
        return {'type': t, 'name': f"{s['label']}.{t}", 'port': version['port'], 'server': f"machine{s['host']}.local.",
                'addrs': addrs, 'props': version['props'], 'host_ttl': s.get('host_ttl', 120)}
    addrs = [host_ip(s['host'], f) for f in version['addrs']]
    # one host name per service: a lookup returns every address record of the host name, so services that share a host
    # name but advertise different address sets would make "the advertised addresses" ambiguous
    server = ''.join(ch for ch in s['label'].lower() if ch.isalnum()) + f"-h{s['host']}.local."
    return {'type': t, 'name': f"{s['label']}.{t}", 'port': version['port'], 'server': server, 'addrs': addrs,
            'props': version['props'], 'host_ttl': s.get('host_ttl', 120)}


class Run:
    def __init__(self, case: Dict[str, Any], drop: Optional[Tuple[int, Optional[int]]]) -> None:
        self.case = case
        self.drop = drop
        self.lookups: List[Dict[str, Any]] = []
        self.state_log: Dict[int, List[Tuple[float, Optional[Dict[str, Any]]]]] = {}    # svc -> [(t, desc|None)]
        self.host_closed_at: Dict[int, float] = {}
        self.browser_cancelled: Set[int] = set()
        self.listeners: Dict[int, sim.RecListener] = {}
        self.browser_started: Dict[int, float] = {}
        self.t_last = 0.0
        self.in_flight_browser_start = False
        self.pending_tasks: List[asyncio.Future] = []

    async def main(self, w: sim.World) -> None:
        from zeroconf.asyncio import AsyncServiceBrowser, AsyncServiceInfo

        case = self.case
        # a host joins the link either at the start or just before its first use (empty cache: it has to ask)
        first_use: Dict[int, float] = {}
        for op in case['ops']:
            hi_ = case['services'][op['svc']]['host'] if 'svc' in op else op.get('host')
            if hi_ is not None and op['op'] != 'close_host':
                first_use[hi_] = min(first_use.get(hi_, 1e18), op['t'])
        for b in case['browsers']:
            first_use[b['host']] = min(first_use.get(b['host'], 1e18), b['at'])
        t0 = w.clock.t
        self.t0 = t0
        hosts: List[Any] = [None] * case['hosts']
        self.hosts = hosts
        ready = [asyncio.Event() for _ in range(case['hosts'])]
        joins = case.get('joins') or ['start'] * case['hosts']

        async def joiner(hi: int) -> None:
            if joins[hi] == 'late' and hi in first_use:
                await asyncio.sleep(max(0.0, first_use[hi] / 1000.0 - 0.05))
            hosts[hi] = w.add_host(f'H{hi}', socks=[('v4', f'10.0.0.{hi + 1}')])
            await hosts[hi].zc.async_wait_for_start()
            ready[hi].set()

        joiners = [asyncio.ensure_future(joiner(hi)) for hi in range(case['hosts'])]
        infos: Dict[int, Any] = {}
        versions: Dict[int, Dict[str, Any]] = {i: {'addrs': list(s['addrs']), 'port': s['port'], 'props': s['props'],
                                                   'shared': case['host_addrs'][s['host']] if case.get('shared') else None}
                                               for i, s in enumerate(case['services'])}
        registering: Set[int] = set()
        not_awaited: Dict[int, Any] = {}
        retired: Dict[int, Any] = {}
        self.hasty = False
        self.reused_object = False
        browsers: Dict[int, Any] = {}
        last_op_on_svc: Dict[int, float] = {}

        def on_add(lst: sim.RecListener, zc: Any, type_: str, name: str, ev: Dict[str, Any]) -> None:
            info = AsyncServiceInfo(type_, name)
            rec = {'t_start': w.clock.t, 'type': type_, 'name': name, 'host': lst.tag, 'done': False}
            self.lookups.append(rec)

            async def go() -> None:
                try:
                    rec['result'] = await info.async_request(zc, 3000)
                except BaseException as e:  # noqa
                    rec['exc'] = repr(e)
                rec['t_end'] = w.clock.t
                rec['done'] = True
                rec['fields'] = {'server': info.server, 'port': info.port, 'text': info.text.hex() if info.text else '',
                                 'addrs': sorted(a.packed.hex() for a in info.ip_addresses_by_version(_all()))}

            self.pending_tasks.append(asyncio.ensure_future(go()))

        async def host_worker(hi: int, ops: List[Dict[str, Any]]) -> None:
            await ready[hi].wait()
            h = hosts[hi]
            for op in ops:
                target = t0 + op['t'] / 1000.0
                k = op.get('svc')
                if k is not None and k in last_op_on_svc and not (k in not_awaited and op['op'] in ('unregister', 'update')):
                    target = max(target, last_op_on_svc[k] + 1.5)
                if target > w.clock.t:
                    await asyncio.sleep(target - w.clock.t)
                if hi in self.host_closed_at:
                    return
                kind = op['op']
                s = case['services'][k] if k is not None else None
                if kind == 'register' or (kind == 'reregister' and k not in infos):
                    if k in infos:
                        continue
                    if kind == 'reregister' and op.get('reuse') and k in retired and not case.get('shared'):
                        # the application keeps its ServiceInfo object: after the unregister it changes the port on it and
                        # registers the same object again
                        versions[k]['port'] += 100
                        d = desc_of(s, versions[k])
                        info = retired.pop(k)
                        info.port = d['port']
                        self.reused_object = True
                    else:
                        d = desc_of(s, versions[k])
                        info = sim.make_service_info(d)
                    registering.add(k)
                    if s.get('ttl_arg'):
                        task = await h.azc.async_register_service(info, ttl=s['ttl_arg'])
                    else:
                        task = await h.azc.async_register_service(info)
                    infos[k] = info
                    self.state_log.setdefault(k, []).append((w.clock.t, d))
                    if s.get('no_await'):
                        not_awaited[k] = task
                        self.hasty = True
                    else:
                        await task
                    registering.discard(k)
                elif kind == 'update':
                    if k not in infos:
                        continue
                    v = versions[k]
                    if op['what'] == 'text-back':
                        v['props'] = s['props']           # back to what was advertised first
                    elif op['what'] == 'port-back':
                        v['port'] = s['port']
                    elif op['what'] == 'port':
                        v['port'] += 100
                    elif op['what'] == 'text' or v.get('shared'):
                        v['props'] = '0162' if v['props'] != '0162' else '0163'
                    else:
                        # replace an address by another of the same family (the cache-flush bit only replaces records of
                        # the same type; dropping a whole address family on update is not withdrawn by the library and
                        # lingers in peer caches for the host TTL - outside this check, noted in DESIGN.md)
                        v['addrs'] = [{'v4': 'v4b', 'v4b': 'v4'}.get(a, a) for a in v['addrs']]
                        if not any(a in ('v4', 'v4b') for a in v['addrs']):
                            v['port'] += 1
                    d = desc_of(s, v)
                    info = sim.make_service_info(d)
                    self.state_log[k].append((w.clock.t, d))
                    task = await h.azc.async_update_service(info)
                    infos[k] = info
                    await task
                    if k in not_awaited:
                        await not_awaited.pop(k)
                elif kind in ('unregister', 'reregister'):
                    if k not in infos:
                        continue
                    info = infos.pop(k)
                    retired[k] = info
                    self.state_log[k].append((w.clock.t, None))
                    ptr = info.dns_pointer()      # classification only: was an answer for this instance waiting to be multicast?
                    if any(ptr in g.answers for q in (h.zc.out_queue, h.zc.out_delay_queue) for g in q.queue):
                        self.unregister_with_answer_queued = True
                        if any(kk != k and infos[kk].server_key == info.server_key for kk in infos
                               if case['services'][kk]['host'] == hi):
                            self.unregister_with_answer_queued_shared = True
                    task = await h.azc.async_unregister_service(info)
                    await task
                    if k in not_awaited:
                        await not_awaited.pop(k)
                elif kind == 'close_host':
                    self.host_closed_at[hi] = w.clock.t
                    for kk, ss in enumerate(case['services']):
                        if ss['host'] == hi and kk in infos:
                            infos.pop(kk)
                            self.state_log[kk].append((w.clock.t, None))
                    await h.azc.async_close()
                    h.closed = True
                    self.t_last = max(self.t_last, w.clock.t)
                    return
                if k is not None:
                    last_op_on_svc[k] = w.clock.t
                self.t_last = max(self.t_last, w.clock.t)

        async def browser_worker(bi: int, b: Dict[str, Any]) -> None:
            await ready[b['host']].wait()
            target = t0 + b['at'] / 1000.0
            if target > w.clock.t:
                await asyncio.sleep(target - w.clock.t)
            if b['host'] in self.host_closed_at:
                return
            lst = sim.RecListener(w, tag=f"H{b['host']}", on_add=on_add)
            self.listeners[bi] = lst
            types = [TYPES[i] for i in b['types']]
            if registering:
                self.in_flight_browser_start = True
            from zeroconf import DNSQuestionType

            qt = {'QM': DNSQuestionType.QM, 'QU': DNSQuestionType.QU}.get(b.get('qtype'))     # None: QU first, then QM
            browsers[bi] = AsyncServiceBrowser(hosts[b['host']].zc, types if len(types) > 1 else types[0], listener=lst,
                                               question_type=qt)
            self.browser_started[bi] = w.clock.t
            self.t_last = max(self.t_last, w.clock.t)

        async def cancel_worker(op: Dict[str, Any]) -> None:
            target = t0 + op['t'] / 1000.0
            if target > w.clock.t:
                await asyncio.sleep(target - w.clock.t)
            bi = op['browser']
            if bi in browsers and bi not in self.browser_cancelled and case['browsers'][bi]['host'] not in self.host_closed_at:
                self.browser_cancelled.add(bi)
                await browsers[bi].async_cancel()
                self.t_last = max(self.t_last, w.clock.t)

        per_host: Dict[int, List[Dict[str, Any]]] = {}
        for op in sorted(case['ops'], key=lambda o: o['t']):
            if op['op'] in ('register', 'update', 'unregister', 'reregister'):
                per_host.setdefault(case['services'][op['svc']]['host'], []).append(op)
            elif op['op'] == 'close_host':
                per_host.setdefault(op['host'], []).append(op)
        workers = [asyncio.ensure_future(host_worker(hi, ops)) for hi, ops in per_host.items()]
        workers += [asyncio.ensure_future(browser_worker(bi, b)) for bi, b in enumerate(case['browsers'])]
        workers += [asyncio.ensure_future(cancel_worker(op)) for op in case['ops'] if op['op'] == 'cancel_browser']
        res = await asyncio.gather(*(joiners + workers), return_exceptions=True)
        for r in res:
            if isinstance(r, HarnessError):
                raise r
            if isinstance(r, BaseException):
                self.worker_exc = r
        self.t_last = max(self.t_last, w.clock.t)
        await asyncio.sleep(SETTLE_S)
        self.t_eval = w.clock.t
        self.final_live = {bi: {t: set(v) for t, v in lst.live().items()} for bi, lst in self.listeners.items()}
        self.events = {bi: list(lst.events) for bi, lst in self.listeners.items()}
        await asyncio.sleep(4.0)        # let lookups started late finish
        self.late_live = None
        self.late_listener = None
        if case.get('late_s'):
            lb = case.get('late_browser')
            slept = 0.0
            self.late_in_purge_window = False
            if lb and lb['host'] not in self.host_closed_at and hosts[lb['host']] is not None:
                if lb['at_s'] == 'expiry':
                    lzc = hosts[lb['host']].zc

                    def ptrs() -> List[Any]:
                        return [r for ti in lb['types'] for r in lzc.cache.entries_with_name(TYPES[ti]) if r.type == 12]

                    for _ in range(4):
                        now = w.now_ms
                        exps = [r.created + r.ttl * 1000.0 for r in ptrs() if not r.is_expired(now)]
                        if not exps:
                            break
                        dt = (min(exps) - now) / 1000.0 + 0.05
                        if slept + dt > case['late_s'] - 200:
                            break
                        await asyncio.sleep(dt)
                        slept += dt
                        if any(r.is_expired(w.now_ms) for r in ptrs()):
                            self.late_in_purge_window = True
                            break
                else:
                    await asyncio.sleep(lb['at_s'])
                    slept = lb['at_s']
                lhost, ltag = hosts[lb['host']], f"H{lb['host']}"
                if lb.get('new_host'):
                    # a machine that joins the link only now (empty cache: its questions carry no known answers, so they are answered)
                    ltag = f"H{case['hosts']}"
                    lhost = w.add_host(ltag, socks=[('v4', f"10.0.0.{case['hosts'] + 1}")])
                    await lhost.zc.async_wait_for_start()
                self.late_listener = sim.RecListener(w, tag=ltag, on_add=on_add)
                types = [TYPES[i] for i in lb['types']]
                late_br = AsyncServiceBrowser(lhost.zc, types if len(types) > 1 else types[0], listener=self.late_listener)
                if lb.get('cancel') and lb['at_s'] != 'expiry' and case['late_s'] - slept > 120:
                    await asyncio.sleep(30.0)
                    slept += 30.0
                    self.late_browser_live = {t: set(v) for t, v in self.late_listener.live().items()}
                    self.late_browser_events = list(self.late_listener.events)
                    await late_br.async_cancel()
                    self.late_cancelled = True
                    if lb.get('new_host') and lb.get('leave'):
                        await lhost.azc.async_close()          # ... and leaves again
            await asyncio.sleep(case['late_s'] - slept)
            if self.late_listener is not None and not getattr(self, 'late_cancelled', False):
                self.late_browser_live = {t: set(v) for t, v in self.late_listener.live().items()}      # before the hosts are torn down
                self.late_browser_events = list(self.late_listener.events)
            self.late_live = {bi: {t: set(v) for t, v in lst.live().items()} for bi, lst in self.listeners.items()}
            self.late_events = {bi: list(lst.events) for bi, lst in self.listeners.items()}


def rrset_view(run: 'Run', host: str, owner: str, rtype: int) -> List[Tuple[float, float, Tuple]]:
    """What host `host` may hold for (owner, rtype), judged from the datagrams delivered to it (RFC 6762 s10: every copy
    (re)starts its lifetime, a goodbye ends it, a copy with the cache-flush bit ends all other records of the set that are older
    than one second a second later). Returns availability intervals (from, until, rdata identity)."""
    live: Dict[Tuple, List[float]] = {}          # ident -> [created, expires]
    out: List[Tuple[float, float, Tuple]] = []
    owner = owner.lower()
    last_data, last_t = None, -1e9
    for dv in run.deliveries:
        if dv['host'] != host or dv['seq'] < 0:
            continue
        e = run.trace_by_seq.get(dv['seq'])
        if e is None:
            continue
        # what the host perceives: a datagram byte-identical to the previous one on its socket less than a second earlier is
        # discarded unseen (the second and third copy of an announcement, link-layer duplicates) - as in C11/C12, "seen" is the
        # host's own perception
        if e['data'] == last_data and dv['t'] - last_t < 1.0:
            continue
        last_data, last_t = e['data'], dv['t']
        m = sim.decode_trace_entry(e)
        if m is None or not m['flags'] & 0x8000:
            continue
        t = dv['t']
        got = [r for r in m['an'] + m['ar'] if r['type'] == rtype and wire.name_text(r['name']).lower() == owner]
        for r in got:
            ident = rp.ident_of_wire_rr(r)
            if ident in live:
                c, x = live.pop(ident)
                out.append((c, min(x, t), ident))
            if r['ttl'] > 0:
                live[ident] = [t, t + r['ttl']]
        if any(r['cls'] & 0x8000 for r in got):
            present = {rp.ident_of_wire_rr(r) for r in got}
            for ident, cx in live.items():
                if ident not in present and t - cx[0] > 1.0:
                    cx[1] = min(cx[1], t + 1.0)
    for ident, (c, x) in live.items():
        out.append((c, x, ident))
    return out


def _all():
    from zeroconf import IPVersion

    return IPVersion.All


def execute(case: Dict[str, Any], drop: Optional[Tuple[int, Optional[int]]]):
    run = Run(case, drop)
    delivery = sim.Delivery(seed=case['seed'], max_delay_ms=case['max_delay'], dup_pct=case['dup_pct'], drop=drop)
    expl = [0, 100] if case['jitter'] == 'ends' else None
    with sim.World(jitter_seed=case['seed'], jitter_explicit=expl, delivery=delivery) as w:
        w.run(run.main(w))
        run.errors = list(w.errors)
        run.n_datagrams = len(w.net.trace)
        run.deliveries = list(w.net.delivered)
        run.trace_by_seq = {e['seq']: e for e in w.net.trace}
        # (seq, host, dst, len, t, is non-probe query)
        def is_goodbye(e: Dict[str, Any]) -> bool:
            if len(e['data']) < 12 or not e['data'][2] & 0x80:
                return False
            m = sim.decode_trace_entry(e)
            return bool(m and any(r['ttl'] == 0 for r in m['an']))

        run.trace_meta = [(e['seq'], e['host'], e['dst'], len(e['data']), e['t'],
                           len(e['data']) >= 12 and not e['data'][2] & 0x80 and e['data'][8:10] == b'\x00\x00', is_goodbye(e))
                          for e in w.net.trace]
    return run


def judge(case: Dict[str, Any], run: Run, label: str) -> None:
    rel = lambda t: round((t - run.t0) * 1000, 1)
    det: Dict[str, Any] = {'run': label, 't_last_change': rel(run.t_last), 'datagrams': run.n_datagrams}
    if run.errors:
        raise Violation('exception reached the event loop: ' + str(run.errors[0].get('exception')), dict(det, errors=run.errors[:2]),
                        tag='loop-exception')
    if getattr(run, 'worker_exc', None) is not None:
        raise Violation(f'API call raised {type(run.worker_exc).__name__}', dict(det, exc=repr(run.worker_exc)), tag='api-raised')
    # expected live instances per type
    expected: Dict[str, Set[str]] = {t: set() for t in TYPES}
    for k, log in run.state_log.items():
        s = case['services'][k]
        if log and log[-1][1] is not None and s['host'] not in run.host_closed_at:
            expected[TYPES[s['type']]].add(log[-1][1]['name'].lower())
    for bi, b in enumerate(case['browsers']):
        if bi not in run.listeners or bi in run.browser_cancelled or b['host'] in run.host_closed_at:
            continue
        ev = run.events[bi]
        state: Dict[Tuple[str, str], str] = {}
        for e in ev:
            if e['kind'] == 'update':
                continue
            key = (e['type'], e['name'].lower())
            if state.get(key, 'remove') == e['kind']:
                raise Violation(f"browser delivered two consecutive {e['kind']} callbacks for one instance",
                                dict(det, browser=bi, instance=e['name']), tag='alternation')
            state[key] = e['kind']
        live = run.final_live[bi]
        for ti in b['types']:
            t = TYPES[ti]
            got = live.get(t, set())
            want = expected[t]
            if got != want:
                raise Violation('browser did not converge to the registered instances of its type within the settling time',
                                dict(det, browser=bi, host=b['host'], type=t, reported=sorted(got), registered=sorted(want),
                                     missing=sorted(want - got), stale=sorted(got - want),
                                     callbacks=[(x['kind'], x['name'], rel(x['t'])) for x in ev if x['type'] == t][-8:]),
                                tag='not-converged:' + ('missing' if want - got else 'stale'))
    # nothing changes after the settling point: the same set must still be reported one or two pointer lifetimes later
    if run.late_live is not None:
        for bi, b in enumerate(case['browsers']):
            if bi not in run.listeners or bi in run.browser_cancelled or b['host'] in run.host_closed_at:
                continue
            for ti in b['types']:
                t = TYPES[ti]
                got, want = run.late_live[bi].get(t, set()), expected[t]
                if got != want:
                    raise Violation(f"browser no longer reports the registered instances of its type {case['late_s']} s after it had converged "
                                    '(nothing was changed in between)',
                                    dict(det, browser=bi, host=b['host'], type=t, reported=sorted(got), registered=sorted(want),
                                         callbacks=[(x['kind'], x['name'], rel(x['t'])) for x in run.late_events[bi] if x['type'] == t][-8:]),
                                    tag='not-stable:' + ('missing' if want - got else 'stale'))
    if run.late_live is not None and run.late_listener is not None:
        lb = case['late_browser']
        live = run.late_browser_live
        for ti in lb['types']:
            t = TYPES[ti]
            got, want = live.get(t, set()), expected[t]
            if got != want:
                raise Violation('a browser started long after the link had settled does not report the registered instances of its type',
                                dict(det, host=lb['host'], type=t, started_s=lb['at_s'], reported=sorted(got), registered=sorted(want),
                                     expired_unpurged_pointer_at_start=getattr(run, 'late_in_purge_window', False),
                                     callbacks=[(x['kind'], x['name'], rel(x['t'])) for x in run.late_browser_events if x['type'] == t][-8:]),
                                tag='late-browser:' + ('missing' if want - got else 'stale'))
    # what a host multicasts about the port of one of its registered instances is what is registered at that moment (queued answers
    # are purged on update; a service registered again is announced with its present data)
    for seq in sorted(run.trace_by_seq):
        e = run.trace_by_seq[seq]
        m = sim.decode_trace_entry(e)
        if m is None or not m['flags'] & 0x8000:
            continue
        for r in m['an'] + m['ar']:
            if r['type'] != 33 or r['ttl'] == 0:
                continue
            nm = wire.name_text(r['name']).lower()
            k = next((i for i, s in enumerate(case['services']) if f"{s['label']}.{TYPES[s['type']]}".lower() == nm), None)
            if k is None or e['host'] != 'H%d' % case['services'][k]['host']:
                continue
            cur = None
            for t, d in run.state_log.get(k, []):
                if t <= e['t']:
                    cur = d
            if cur is not None and r['rd']['port'] != cur['port']:
                raise Violation('a host multicast an SRV record of one of its registered instances with a port other than the registered one',
                                dict(det, instance=nm, sent_port=r['rd']['port'], registered_port=cur['port'], t=rel(e['t'])),
                                tag='announced-other-port')
    # lookups from inside Added callbacks
    for lk in run.lookups:
        if not lk['done']:
            continue
        hi = int(lk['host'][1:])
        if hi in run.host_closed_at and run.host_closed_at[hi] <= lk.get('t_end', 1e18):
            continue
        k = next((i for i, s in enumerate(case['services']) if f"{s['label']}.{TYPES[s['type']]}".lower() == lk['name'].lower()), None)
        if k is None:
            continue
        log = run.state_log.get(k, [])
        # state constant and registered during the lookup?
        cur = None
        changed = False
        for t, d in log:
            if t <= lk['t_start']:
                cur = d
            elif t <= lk['t_end'] + 1.2:
                changed = True
        owner_closed = run.host_closed_at.get(case['services'][k]['host'])
        if cur is None or changed or (owner_closed is not None and owner_closed <= lk['t_end'] + 1.2):
            continue
        # registered at least 1.2 s before (announcements out) - a lookup racing the very first announcement is fine too, but
        # an update within the previous 1.2 s may still be propagating
        prev_change = max([t for t, d in log if t <= lk['t_start']] + [0])
        if lk['t_start'] - prev_change < 1.2:
            continue
        ld = dict(det, lookup=(lk['name'], rel(lk['t_start']), rel(lk['t_end'])), on_host=lk['host'], fields=lk.get('fields'),
                  registered=cur)
        if 'exc' in lk:
            raise Violation('lookup from inside add_service raised ' + lk['exc'], ld, tag='lookup-raised')
        if not lk['result']:
            raise Violation('service-info lookup made from the Added callback did not resolve the service', ld, tag='lookup-failed')
        f = lk['fields']
        want_addrs = sorted(rp.addr_bytes(a).hex() for a in cur['addrs'])
        versions = [d for t, d in log if d is not None and t <= lk['t_start']]
        if len(versions) == 1:
            if (f['server'] or '').lower() != cur['server'].lower() or f['port'] != cur['port'] or f['text'] != cur['props'] \
                    or f['addrs'] != want_addrs:
                raise Violation('service-info lookup made from the Added callback resolved other data than advertised',
                                dict(ld, want_addrs=want_addrs), tag='lookup-wrong-data')
        else:
            # after an update the reader's cache may legitimately still hold a record of a previous version (one it saw less than a
            # second before the new announcement is not flushed, RFC 6762 s10.2). What it may hold is judged from the datagrams that
            # were delivered to it: TXT and port must come from a record that was unexpired at some instant of the lookup
            for rtype, field, pick in ((16, 'text', lambda i: i[2]), (33, 'port', lambda i: i[4])):
                view = rrset_view(run, lk['host'], lk['name'], rtype)
                ok_vals = {pick(i) for c_, x_, i in view if c_ <= lk['t_end'] and x_ > lk['t_start']}
                if ok_vals and f[field] not in ok_vals:
                    raise Violation(f"service-info lookup made from the Added callback returned a {'TXT' if rtype == 16 else 'port'} that no "
                                    'unexpired record of the instance carried during the lookup (judged from what was delivered to that host)',
                                    dict(ld, got=f[field], unexpired=sorted(map(str, ok_vals)),
                                         delivered=[(rel(c_), rel(x_), str(pick(i))) for c_, x_, i in view][-6:]),
                                    tag='lookup-stale:' + field)
            # the lookup must contain the current data and nothing that was never advertised
            all_addrs = {rp.addr_bytes(a).hex() for d in versions for a in d['addrs']}
            if (f['server'] or '').lower() != cur['server'].lower() or f['port'] not in {d['port'] for d in versions} \
                    or f['text'] not in {d['props'] for d in versions} or not set(want_addrs) <= set(f['addrs']) \
                    or not set(f['addrs']) <= all_addrs:
                raise Violation('service-info lookup made from the Added callback resolved data that was never advertised, or lacks '
                                'the currently advertised addresses', dict(ld, want_addrs=want_addrs), tag='lookup-wrong-data')


def check(case: Dict[str, Any]) -> Dict[str, Any]:
    base = execute(case, None)
    judge(case, base, 'no-loss')
    n = base.n_datagrams
    # which datagrams were "used" by some receiver in the no-loss run: approximated by multicast/unicast datagrams that
    # were delivered to at least one other host (every delivered response can change a cache)
    runs = 1
    used_drop = False
    drops: List[Tuple[int, Optional[int]]] = []
    if case.get('force_drops') is not None:
        drops = [(d[0], d[1]) for d in case['force_drops']]       # a saved failing case names the dropped datagram itself
    elif n:
        if TIER['name'] == 'thorough' and n <= 120:
            drops = [(k, None) for k in range(n)]
        else:
            # "critical" datagrams: queries (browser start-up, lookups, probes) and the responses sent within 1.3 s after a query
            # browser / lookup queries (probes excluded) and what other hosts sent within 0.6 s after one
            qs_ = [(m[4], m[1]) for m in base.trace_meta if m[5]]
            critical = [i for i, m in enumerate(base.trace_meta)
                        if m[5] or any(0 <= m[4] - tq <= 0.6 and m[1] != hq for tq, hq in qs_)]
            goodbyes = [i for i, m in enumerate(base.trace_meta) if len(m) > 6 and m[6]]
            for spec in case['drops']:
                frac, mode = spec[0], spec[1]
                cls = spec[2] if len(spec) > 2 else 'any'
                if cls == 'goodbye' and goodbyes:
                    k = goodbyes[frac % len(goodbyes)]
                elif cls == 'goodbye-last' and goodbyes:
                    k = goodbyes[-1 - (frac % min(3, len(goodbyes)))]
                else:
                    k = critical[frac % len(critical)] if cls == 'critical' and critical else (frac * n) // 1000
                drops.append((k, None if mode == 'all' else frac % case['hosts']))
    seen = set()
    for d in drops:
        if d in seen:
            continue
        seen.add(d)
        r = execute(case, d)
        runs += 1
        try:
            judge(case, r, f'drop datagram #{d[0]} of {n} ({"all receivers" if d[1] is None else "receiver H%d" % d[1]})')
        except Violation as v:
            if isinstance(v.details, dict):
                meta = base.trace_meta[d[0]] if d[0] < len(base.trace_meta) else None
                v.details['dropped'] = {'k': d[0], 'receiver': d[1], 'datagram': meta}
            case['force_drops'] = [[d[0], d[1]]]       # so that the replay file reproduces in either tier
            raise
        if d[0] < len(base.trace_meta) and base.trace_meta[d[0]][2] in (sim.MDNS4, sim.MDNS6):
            used_drop = True
    classes = ['hosts-%d' % case['hosts'], 'drops-%d' % (runs - 1)]
    if used_drop:
        classes.append('dropped-multicast')
    if base.in_flight_browser_start:
        classes.append('browser-started-during-registration')
    if getattr(base, 'reused_object', False):
        classes.append('same-ServiceInfo-object-registered-again-after-an-in-place-change')
    if getattr(base, 'hasty', False):
        classes.append('withdrawn-while-its-registration-announcements-were-going-out (ttl= argument)')
    if case.get('shared'):
        classes.append('shared-host-names')
    if getattr(base, 'unregister_with_answer_queued', False):
        classes.append('unregister-with-answer-queued')
    if getattr(base, 'unregister_with_answer_queued_shared', False):
        classes.append('unregister-with-answer-queued-sibling-on-same-host-name')
    if base.host_closed_at:
        classes.append('host-closed')
    if any(op['op'] in ('update',) for op in case['ops']):
        classes.append('has-update')
    if case['dup_pct']:
        classes.append('duplication')
    if base.lookups:
        classes.append('lookups-from-callback')
    if case.get('late_s'):
        classes.append('second-look-after-%d-s' % case['late_s'])
        if case.get('late_browser'):
            if case['late_browser']['at_s'] == 'expiry':
                classes.append('browser-started-when-an-unrefreshed-pointer-ran-out' + ('-before-the-purge' if getattr(base, 'late_in_purge_window', False) else '-(not reached)'))
            else:
                classes.append('browser-started-%d-s-after-settling' % case['late_browser']['at_s'])
                if case['late_browser'].get('new_host'):
                    classes.append('late-browser-on-a-machine-that-joined-the-link-just-then' + ('-and-left-again' if case['late_browser'].get('leave') else ''))
    return {'nontrivial': used_drop or base.in_flight_browser_start, 'classes': classes, 'evaluations': runs,
            'max': {'datagrams': n, 'runs': runs, 'lookups': len(base.lookups)}, 'sample': {'case': case, 'datagrams': n, 'runs': runs}}
