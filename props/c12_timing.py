"""C12 - Reply timing: jitter, aggregation, one-second protection, truncated queries."""
from __future__ import annotations

from typing import Any, Dict, List, Optional, Set, Tuple

from hypothesis import strategies as st

from vlib import respsim, responder as rp
from vlib.core import Violation

from . import c11_routing as c11

ID = 'C12'
LEVEL = 'exploration'
RULE = ('One responder with 1-3 services receives an arrival schedule of 1-8 port-5353 QM queries (single PTR, single '
        'SRV/A/AAAA, multi-question, probes, known answers) and peer re-announcements (sightings) with inter-arrival gaps from the '
        'grid {0,1,19,20,21,119,120,121,200,499,500,501,999,1000,1001,1119,1120,1200} ms (float-exact) or uniform, plus truncated '
        'trains of 1-4 TC packets from one or two sources; the library\'s jitter is seeded or pinned to interval end points, every '
        'draw recorded. Every multicast reply (independent decoder) is matched against per-(query, record) windows derived from the '
        'statement: immediate (probe / single SRV,A,AAAA question), aggregated [t+20, t+500], protected [sighting+1000, t+1200] '
        'using the host\'s own perceived sightings; each requirement must be covered, each transmission justified by a distinct '
        'query (no duplicates), no record twice in one message; trains are assembled once, from one source, after the recorded '
        '400-500 ms hold, honouring the union of known answers. Non-trivial = >= 2 queries with overlapping windows, or a '
        'protected-class answer, or a train of >= 2 packets.')
ASSUMPTIONS = [
    'which packets were assembled into one query, and when, is observed at QueryHandler.handle_assembled_query (wrapped from the harness)',
    'a truncated train counts as arriving when it is assembled (continuation packet or end of the 400-500 ms hold): the jitter, '
    'aggregation and one-second-protection windows are measured from that instant',
    'ties at one virtual instant are ordered by a global sequence number, never by timestamp',
    '"saw multicast" is read from the wire: every response record that arrived on one of the host\'s sockets (its own multicasts loop '
    'back), except in a datagram byte-identical to the previous one handled on that socket less than a second before (the '
    'listener\'s documented duplicate guard)',
]
BUDGET = {'quick': {'examples': 2500}, 'thorough': {'examples': 20000, 'shards': 16}}
EPS = 2.0
GRID = [0, 1, 19, 20, 21, 119, 120, 121, 200, 499, 500, 501, 999, 1000, 1001, 1119, 1120, 1200]
IMMEDIATE_TYPES = {33, 1, 28, 47}


def q_one(n_svc: int, kinds):
    return st.tuples(st.sampled_from(kinds), st.integers(0, n_svc - 1), st.integers(0, 1), st.just(0), st.just(False))


@st.composite
def query_event(draw, n_svc: int, gap) -> Dict[str, Any]:
    shape = draw(st.sampled_from(['ptr', 'ptr', 'ptr', 'imm', 'imm', 'multi', 'multi', 'probe']))
    if shape in ('ptr', 'probe'):
        qs = [['type', draw(st.integers(0, n_svc - 1)), 0, 12, False]]
    elif shape == 'imm':
        tk, qt = draw(st.sampled_from([('inst', 33), ('host', 1), ('host', 28), ('inst', 16)]))
        qs = [[tk, draw(st.integers(0, n_svc - 1)), draw(st.integers(0, 1)), qt, False]]
    else:
        qs = [list(x) for x in draw(st.lists(st.tuples(st.sampled_from(['type', 'inst', 'host', 'enum']), st.integers(0, n_svc - 1),
                                                       st.just(0), st.sampled_from([12, 33, 16, 1, 255]), st.just(False)),
                                             min_size=2, max_size=3))]
    return {'gap': gap, 'kind': 'query', 'qs': qs,
            'ka': draw(st.lists(st.tuples(st.integers(0, 5), st.sampled_from(['below', 'above', 'full'])).map(list), max_size=1))
            if draw(st.integers(0, 3)) == 0 else [],
            'probe': shape == 'probe', 'client': draw(st.integers(0, 2)), 'family': 'v4', 'port': 5353, 'sock': 0}


@st.composite
def scenario(draw) -> Dict[str, Any]:
    services = draw(c11.services_st(3))
    for s_ in services:           # default TTLs: the 1 s protection is about sightings, not about TTL quarters
        s_['host_ttl'], s_['other_ttl'] = 120, 4500
    if draw(st.integers(0, 2)) == 0:
        # ... except that one service may have a TTL below the 1125 s pointer floor (its looped-back pointer is cached floored)
        services[draw(st.integers(0, len(services) - 1))]['other_ttl'] = draw(st.sampled_from([60, 300]))
    n = len(services)
    gap_st = st.one_of(st.sampled_from(GRID), st.sampled_from(GRID), st.integers(0, 3000))
    events: List[Dict[str, Any]] = []
    n_ev = draw(st.integers(1, 8))
    qid = 1
    for _ in range(n_ev):
        kind = draw(st.sampled_from(['query', 'query', 'query', 'sighting', 'train', 'sighting2', 'echoes']))
        if kind == 'query':
            ev = draw(query_event(n, draw(gap_st)))
            ev['id'] = qid
            qid += 1
            events.append(ev)
        elif kind == 'sighting':
            events.append({'gap': draw(gap_st), 'kind': 'sighting', 'svc': draw(st.integers(0, n - 1)),
                           'which': draw(st.sampled_from([['ptr', 'srv', 'txt', 'addr'], ['ptr'], ['srv', 'addr'], ['srv']]))})
            # the next query is aimed at the 1 s protection boundary
            ev = draw(query_event(n, draw(st.sampled_from([1, 500, 999, 1000, 1001, 1500]))))
            ev['id'] = qid
            qid += 1
            events.append(ev)
        elif kind == 'echoes':
            # several hosts ask the very same thing (same bytes, id 0) a fraction of a second apart: copies within a second of the
            # last one *handled* are dropped by the duplicate guard, a copy a second or more after it is a query like any other
            ev = draw(query_event(n, draw(gap_st)))
            ev['id'] = 0
            ev['probe'] = False
            events.append(ev)
            for c_ in range(draw(st.integers(2, 3))):
                events.append(dict(ev, client=(ev['client'] + 1 + c_) % 3, gap=draw(st.sampled_from([500, 600, 600, 999, 1000]))))
        elif kind == 'sighting2':
            # the same records are seen twice, seconds apart (a peer that repeats its announcement; the second copy has other bytes
            # than the first only if the selection differs - identical copies more than a second apart are processed too), and a
            # query follows the second sighting at the protection boundary
            k_ = draw(st.integers(0, n - 1))
            which = draw(st.sampled_from([['ptr', 'srv', 'txt', 'addr'], ['ptr'], ['ptr', 'srv']]))
            events.append({'gap': draw(gap_st), 'kind': 'sighting', 'svc': k_, 'which': which})
            events.append({'gap': draw(st.sampled_from([1001, 1500, 5000, 20000, 200000])), 'kind': 'sighting', 'svc': k_,
                           'which': which if draw(st.booleans()) else ['ptr']})
            ev = draw(query_event(n, draw(st.sampled_from([1, 500, 500, 999, 1000, 1001]))))
            ev['id'] = qid
            qid += 1
            events.append(ev)
        else:
            client = draw(st.integers(0, 2))
            length = draw(st.integers(1, 4))
            last_tc = draw(st.booleans())
            for i in range(length):
                ev = draw(query_event(n, draw(gap_st) if i == 0 else draw(st.sampled_from([0, 1, 100, 399, 400, 401, 450, 499, 500, 501]))))
                ev['client'] = client if draw(st.integers(0, 5)) else (client + 1) % 3
                # the packet that completes a train may be a probe (a host whose truncated browse query is followed by the probe of
                # a registration it makes): the known answers of the earlier packets still count
                ev['probe'] = bool(i == length - 1 and length > 1 and draw(st.integers(0, 3)) == 0)
                if length > 1 and i == 0 and not ev['ka'] and draw(st.booleans()):
                    ev['ka'] = [[draw(st.integers(0, 5)), draw(st.sampled_from(['above', 'full']))]]
                ev['tc'] = (i < length - 1) or last_tc
                ev['id'] = qid
                qid += 1
                events.append(ev)
    jitter = {'seed': draw(st.integers(0, 10**6))} if draw(st.integers(0, 2)) else \
        {'explicit': draw(st.lists(st.sampled_from([0, 0, 100, 100, 50]), min_size=1, max_size=6))}
    pre_updates = []
    if draw(st.integers(0, 3)) == 0:
        # the registry reached its state through an update (async_update_service with a fresh ServiceInfo) after registration
        k_ = draw(st.integers(0, n - 1))
        pre_updates.append({'svc': k_, 'set': {'port': 9000 + k_}})
    return {'jitter': jitter, 'socks': 'v4', 'services': services, 'settle_ms': draw(st.sampled_from([1500, 3000])),
            'events': events, 'tail_ms': 2500, 'pre_updates': pre_updates}


@st.composite
def long_gap_scenario(draw) -> Dict[str, Any]:
    """Directed: the host's copy of its own SRV / address records (TTL 120 s) runs out in its cache while the TXT record of the
    same name (4500 s) stays; before that a QU question was answered by unicast alone (the responder consulted the cache, nothing
    was multicast); afterwards the record is asked for twice within a second: the second answer waits for the first one's second."""
    services = draw(c11.services_st(2))
    for s_ in services:
        s_['host_ttl'], s_['other_ttl'] = 120, 4500
    k_ = draw(st.integers(0, len(services) - 1))
    tk, qt = draw(st.sampled_from([('inst', 33), ('inst', 33), ('host', 1)]))
    mk = lambda gap, qu, qid, client: {'gap': gap, 'kind': 'query', 'qs': [[tk, k_, 0, qt, qu]], 'ka': [], 'probe': False, 'client': client,
                                       'family': 'v4', 'port': 5353, 'sock': 0, 'id': qid}
    events = [mk(draw(st.sampled_from([0, 500, 3000])), True, 1, 0),
              mk(draw(st.sampled_from([125000, 135000, 200000])), False, 2, 1),
              mk(draw(st.sampled_from([200, 300, 500, 900, 999])), False, 3, 2)]
    if draw(st.booleans()):
        events.append(mk(draw(st.sampled_from([300, 1001, 1500])), False, 4, 0))
    return {'jitter': {'seed': draw(st.integers(0, 10**6))}, 'socks': 'v4', 'services': services, 'settle_ms': draw(st.sampled_from([1500, 3000])),
            'events': events, 'tail_ms': 2500, 'pre_updates': [], 'shape': 'own-record-expired-in-own-cache-then-asked-twice'}


def strategy(tier: str):
    return st.integers(0, 14).flatmap(lambda k: long_gap_scenario() if k == 0 else scenario())


def known_signature(case: Any, v: Violation):
    return None


def _match(trans: List[int], just: Dict[int, List[int]]) -> bool:
    """Is there an injective assignment transmission -> justifying query? (augmenting paths; tiny sizes)"""
    owner: Dict[int, int] = {}

    def aug(x: int, seen: Set[int]) -> bool:
        for q in just[x]:
            if q in seen:
                continue
            seen.add(q)
            if q not in owner or aug(owner[q], seen):
                owner[q] = x
                return True
        return False

    return all(aug(x, set()) for x in trans)


def check(case: Dict[str, Any]) -> Dict[str, Any]:
    run = respsim.RespRun(case)
    run.execute()
    if run.errors:
        raise Violation('exception reached the event loop: ' + str(run.errors[0].get('exception')), run.errors[:2],
                        tag='loop-exception')
    c11.check_multicast_format(run)
    t0 = run.t_settled_ms
    rel = lambda ms: round(ms - t0, 3)
    by_data = {q['data']: q for q in run.queries}
    from collections import Counter

    n_dropped = Counter(run.dropped_by_duplicate_guard())
    n_copies = Counter((q['data'], q['t_ms']) for q in run.queries)
    n_seen: Counter = Counter()
    guard_dropped_ids: Set[int] = set()      # of several copies arriving at one instant the first is handled, the later ones dropped
    same_bytes: Dict[bytes, List[Dict[str, Any]]] = {}
    for q in run.queries:
        key = (q['data'], q['t_ms'])
        n_seen[key] += 1
        if n_seen[key] > n_copies[key] - n_dropped[key]:
            guard_dropped_ids.add(id(q))
        else:
            same_bytes.setdefault(q['data'], []).append(q)

    def packet_for(d: bytes, t_ms: float) -> Any:
        # several hosts may have sent the same bytes: the packet of an assembly is the latest handled copy that had arrived by then
        cands = [q for q in same_bytes.get(d, []) if q['t_ms'] <= t_ms + EPS and id(q) not in used]
        return cands[-1] if cands else by_data.get(d)
    # ---- logical queries from the observed assemblies ------------------------------------------------
    logical: List[Dict[str, Any]] = []
    used: Set[int] = set()
    tc_draws = [d for d in run.draws if d['site'] == 'tc_defer']
    for a in run.assemblies:
        if a['t_ms'] < t0:
            continue
        packets = [packet_for(d, a['t_ms']) for d in a['datas'] if d in by_data]
        if len(packets) != len(a['datas']):
            continue    # not ours (none expected)
        for p in packets:
            if id(p) in used:
                raise Violation('a query packet was answered as part of two assemblies', {'t': rel(a['t_ms'])}, tag='train-twice')
            used.add(id(p))
        srcs = {p['src'][0] for p in packets}
        if len(srcs) != 1:
            raise Violation('packets from different sources were assembled into one query', {'sources': sorted(srcs)},
                            tag='train-mixed-sources')
        last = packets[-1]
        is_train = any(p['tc'] for p in packets)
        if not last['tc']:
            if abs(a['t_ms'] - last['t_ms']) > EPS:
                raise Violation('non-truncated query was not handled when it arrived', {'arrival': rel(last['t_ms']),
                                                                                       'handled': rel(a['t_ms'])}, tag='query-late')
        else:
            draw = [d for d in tc_draws if d['g'] > last['g']]
            if not draw or (draw[0]['a'], draw[0]['b']) != (400, 500):
                raise Violation('truncated query hold time was not drawn from 400-500 ms', {'draw': draw[:1]}, tag='tc-draw')
            want = last['t_ms'] + draw[0]['v']
            if abs(a['t_ms'] - want) > EPS:
                raise Violation('truncated train was not answered at last TC packet + the drawn hold time',
                                {'last_tc': rel(last['t_ms']), 'draw': draw[0]['v'], 'handled': rel(a['t_ms'])}, tag='tc-hold')
        questions = [x for p in packets for x in p['questions']]
        probe = any(p['probe'] for p in packets)
        known = [k for p in packets if not p['probe'] for k in p['known']]   # a probe packet's own answer section is not read
        exp, dont_care, allowed, _ = run.model.answers([(n, t) for n, t, _ in questions], known)
        if any(qu for _, _, qu in questions):
            # a query with a QU question may be answered by unicast alone (C11's subject): it demands no multicast here and
            # excuses one inside its window
            dont_care = set(exp) | set(dont_care)
        first_qs = packets[0]['questions']
        immediate_shape = len(first_qs) == 1 and first_qs[0][1] in IMMEDIATE_TYPES
        logical.append({'g': a['g'], 't': a['t_ms'], 'packets': packets, 'exp': exp, 'dont_care': dont_care, 'probe': probe,
                        'train': is_train, 'immediate_shape': immediate_shape, 'known': known})
    missing_pk = [q for q in run.queries if id(q) not in used and q['t_ms'] + 520 < run.end_ms and id(q) not in guard_dropped_ids]
    if missing_pk:
        raise Violation('a query packet was never handled', {'packets': [(rel(q['t_ms']), q['questions'], q['tc']) for q in missing_pk]},
                        tag='query-dropped')
    # ---- requirements --------------------------------------------------------------------------------
    reqs: List[Dict[str, Any]] = []
    for qi, L in enumerate(logical):
        for r, ttl in L['exp'].items():
            if r in L['dont_care']:
                continue
            s = run.last_wire_sighting(r, L['g'])
            t = L['t']
            if L['probe']:
                cls, cover, just = 'immediate', (t - EPS, t + EPS), (t - EPS, t + EPS)
            elif L['train'] and s is not None and not (t - s[0] < 1000) and L['packets'][-1]['t_ms'] - s[0] < 1000:
                # the sighting is older than one second when the train is assembled but was not when its last packet arrived:
                # the statement does not say which instant decides, so either treatment (aggregated or protected) is accepted
                cls, cover, just = 'train-either', (t - EPS, t + 1200 + EPS), (t + 20 - EPS, t + 1200 + EPS)
            elif s is not None and t - s[0] < 1000:
                cls = 'protected'
                cover = (s[0] + 1000 - EPS, t + 1200 + EPS)
                just = (max(s[0] + 1000, t + 1020) - EPS, t + 1200 + EPS)
            elif L['immediate_shape']:
                cls, cover, just = 'immediate', (t - EPS, t + EPS), (t - EPS, t + EPS)
            else:
                cls, cover, just = 'aggregated', (t - EPS, t + 500 + EPS), (t + 20 - EPS, t + 500 + EPS)
            reqs.append({'q': qi, 'r': r, 'cls': cls, 'cover': cover, 'just': just, 't': t, 's': s})
    # ---- transmissions -------------------------------------------------------------------------------
    trans: List[Dict[str, Any]] = []
    for s in run.sends:
        if not (s['mc'] and s.get('response')) or s['t_ms'] < t0:
            continue
        seen_in_msg: Set[Tuple] = set()
        an_ids = set()
        owners = s['owners']
        for j, (ident, ttl, fl) in enumerate(s['an'] + s['ar']):
            key = (ident, owners[j])          # NSEC identities ignore the owner; duplicates are judged with it
            if key in seen_in_msg:
                raise Violation('record appears twice within one multicast message (answer repeated, or additional repeats it)',
                                {'t': rel(s['t_ms']), 'record': ident}, tag='dup-in-message')
            seen_in_msg.add(key)
            if j < len(s['an']):
                an_ids.add(ident)
        for ident in an_ids:
            trans.append({'x': s['t_ms'], 'g': s['g'], 'r': ident})
    timeline = {'queries': [(rel(L['t']), [p['questions'] for p in L['packets']], 'probe' if L['probe'] else
                             'train' if L['train'] else '') for L in logical],
                'sightings': sorted({(rel(s[0]), str(i[:2])) for i, v in run.wire_sightings().items() for s in v if s[0] >= t0 - 1200})[:30],
                'transmissions': sorted({(rel(t_['x']), str(t_['r'][:2])) for t_ in trans})[:40]}
    by_r: Dict[Tuple, List[int]] = {}
    for i, t_ in enumerate(trans):
        by_r.setdefault(t_['r'], []).append(i)
    # coverage
    for rq in reqs:
        if rq['cover'][1] > run.end_ms:
            continue
        ok = any(rq['cover'][0] <= trans[i]['x'] <= rq['cover'][1] and trans[i]['g'] > logical[rq['q']]['g']
                 for i in by_r.get(rq['r'], []))
        if not ok:
            raise Violation(f"{rq['cls']} answer not multicast within its window",
                            {'record': rq['r'], 'query_t': rel(rq['t']), 'class': rq['cls'],
                             'window': (rel(rq['cover'][0]), rel(rq['cover'][1])),
                             'sighting': None if rq['s'] is None else rel(rq['s'][0]), 'timeline': timeline},
                            tag='uncovered-' + rq['cls'])
    # justification (injective)
    for r, idxs in by_r.items():
        just: Dict[int, List[int]] = {}
        for i in idxs:
            x = trans[i]['x']
            js = [k for k, rq in enumerate(reqs) if rq['r'] == r and rq['just'][0] <= x <= rq['just'][1]
                  and trans[i]['g'] > logical[rq['q']]['g']]
            if not js and any(r in L['dont_care'] and L['t'] - EPS <= x <= L['t'] + 1200 + EPS for L in logical):
                continue    # a record some query may or may not get (outside the claim): imposes nothing
            if not js:
                raise Violation('multicast of a record that no query justifies at that time (too early, too late or unrequested)',
                                {'record': r, 't': rel(x), 'timeline': timeline}, tag='unjustified')
            just[i] = js
        if not _match([i for i in idxs if i in just], just):
            raise Violation('more transmissions of a record than queries that justify them (duplicate answer)',
                            {'record': r, 'times': [rel(trans[i]['x']) for i in idxs], 'timeline': timeline}, tag='duplicate-answer')
    # ---- classes -------------------------------------------------------------------------------------
    classes = sorted({'class-' + rq['cls'] for rq in reqs})
    overlap = any(a['q'] != b['q'] and a['r'] == b['r'] and a['cover'][0] <= b['cover'][1] and b['cover'][0] <= a['cover'][1]
                  for a in reqs for b in reqs)
    if overlap:
        classes.append('overlapping-windows')
    trains2 = any(len(L['packets']) >= 2 for L in logical)
    if trains2:
        classes.append('train>=2')
    if any(L['train'] for L in logical):
        classes.append('train')
    if 'explicit' in case['jitter']:
        classes.append('adversarial-jitter')
    if case.get('shape'):
        classes.append('directed-' + case['shape'])
    if any(rq['cls'] == 'protected' and rq['s'] and abs((rq['t'] - rq['s'][0]) - 1000) <= 1.5 for rq in reqs):
        classes.append('protection-boundary')
    nontrivial = overlap or trains2 or any(rq['cls'] == 'protected' for rq in reqs)
    return {'nontrivial': bool(nontrivial), 'classes': classes, 'max': {'queries': len(logical), 'transmissions': len(trans)},
            'sample': {'case': case, 'timeline': timeline}}
