"""C06 - Response ingestion and the record-update listener contract."""
from __future__ import annotations

from typing import Any, Dict, List

from hypothesis import strategies as st

from vlib import cachehist as ch
from vlib.core import Violation

from . import c05_cache as c05

ID = 'C06'
LEVEL = 'exploration'
RULE = ('Same executor and generator as C05 plus HINFO and unknown-type records, 1-4 spy listeners, and ops that add/remove '
        'listeners between datagrams or from inside the first/second callback, or register an already registered listener again (with or without a question). Per datagram the oracle derives from CacheModel: the '
        '(new, previous) pairs in datagram order, previous being the very object the cache held; exactly one update and one '
        'complete call per listener registered throughout; cache state visible in the first call (nothing added or removed yet, '
        'refreshed TTLs and flush marks visible) and in the second call/afterwards (model after the datagram: created == arrival '
        'time, received TTL with the PTR floor, cached goodbyes gone, flush marks on exactly the >1 s old others); nothing reaches '
        'the loop exception handler. Non-trivial = a datagram containing at least two of {new, refresh, goodbye-of-cached, '
        'flush-marking, in-datagram repeat} or arriving 999..1001 ms after an entry it could flush.')
ASSUMPTIONS = c05.ASSUMPTIONS[:2] + [
    'a listener removed (or added) while a datagram is being processed may or may not receive that datagram\'s calls',
    'when a datagram changes nothing, zero calls or one call with an empty list are both accepted',
]
BUDGET = {'quick': {'examples': 5000}, 'thorough': {'examples': 15000, 'shards': 16}}

listener_op = st.one_of(
    st.just(['add_listener']),
    st.integers(0, 5).map(lambda k: ['remove_listener', k]),
    st.tuples(st.integers(0, 5), st.integers(0, 6)).map(lambda t: ['readd_listener', t[0], t[1]]),
    st.tuples(st.integers(0, 5), st.sampled_from(['first', 'second']), st.sampled_from(['remove', 'add']),
              st.integers(0, 5)).map(lambda t: ['arm', t[0], t[1], t[2], t[3]]),
    st.tuples(st.integers(0, 1), st.sampled_from([500, 3000, 8000])).map(lambda t: ['lookup', t[0], t[1]]),
)


def strategy(tier: str):
    n = 25 if tier == 'quick' else 60
    one = lambda s_: s_.map(lambda o: [o])
    chunks = st.lists(st.one_of(one(c05.resp_op()), one(c05.resp_op()), one(c05.tick_op), one(listener_op),
                                c05.flush_triple(), c05.renumber()), min_size=1, max_size=n // 2)
    ops = chunks.map(lambda cs: [op for c in cs for op in c][:n])
    return st.fixed_dictionaries({'listeners': st.integers(1, 4), 'ops': ops})


def FLAKY_IS_VIOLATION(case: Any) -> bool:
    """A pending lookup is one more member of the instance's listener *set*, whose iteration order differs from run to run: a
    failure that shows for one order only (an observer that happens to be called after the lookup's ServiceInfo) is still a
    failure - on a correct tree no order makes the observers' view differ from the datagram."""
    return isinstance(case, dict) and any(op and op[0] == 'lookup' for op in case.get('ops', []))


MY_TAGS = ('ingest-', 'listener-')


def known_signature(case: Any, v: Violation):
    return None


def check(case: Dict[str, Any]) -> Dict[str, Any]:
    run = ch.Run(case['ops'], len(ch.TEMPLATES), n_listeners=case['listeners'], check_paths=False)
    run.execute()
    mine = [v for v in run.viol if v.tag.startswith(MY_TAGS)]
    if mine:
        raise mine[0]
    s = run.stats
    classes = [k for k in ('refresh', 'new', 'goodbye_cached', 'flush_marked', 'repeat_in_dgram', 'multi_kind_dgram',
                           'boundary_flush', 'listener_mutation', 'listener_readded', 'exact_1000', 'flush_over_expired', 'lookup_pending') if s.get(k)]
    if case['listeners'] > 1:
        classes.append('multi-listener')
    return {'nontrivial': bool(s['multi_kind_dgram'] or s['boundary_flush']), 'classes': classes,
            'max': {'ops': len(case['ops']), 'datagrams': s['datagrams']}, 'sample': {'case': case, 'stats': s}}
