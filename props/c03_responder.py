"""C03 - Responder answers exactly what is registered, minus what the querier knows."""
from __future__ import annotations

import asyncio
from typing import Any, Dict, List, Optional, Tuple

from hypothesis import strategies as st

from vlib import gen, responder as rp, sim, wire
from vlib.core import Violation

ID = 'C03'
LEVEL = 'exploration'
RULE = ('Histories of 1..14 ops (register / update by mutation or by a fresh ServiceInfo, incl. re-advertising an instance under another subtype / unregister / query) over a pool of <= 6 '
        'service descriptions (3 types incl. a subtype and a mixed-case one, 3 host names in 2 spellings, v4/v6/dual/two-v4 address '
        'sets, custom TTLs incl. odd values) on one real instance in the simulator. Queries have 1..4 class-IN questions '
        '(PTR/A/AAAA/SRV/TXT/ANY/NSEC/unknown over registered names as spelled, re-cased, unregistered, and the enumeration name) '
        'and a known-answer list drawn from the model\'s expected answers with TTL just below/at/above half, full and zero, plus '
        'unrelated records. Replies are read from the wire (unicast reply to a legacy-port query, the multicast replies to a QM '
        'query, or the unicast plus multicast replies to a port-5353 query whose questions carry the QU bit in any combination) with the independent decoder and compared with ResponderModel: answer identity set and TTLs equal, additionals '
        'within the producing services\' own records and disjoint from the answers of the same message. Non-trivial = query asked '
        'after >= 1 update/unregister with >= 1 expected answer and >= 1 suppressed-or-boundary known answer, or on a shared host.')
ASSUMPTIONS = [
    'ANY questions on host names, NSEC records in known-answer lists, NSEC answers when services sharing a host disagree on address '
    'families, and the owner name of NSEC records are outside the claim (don\'t care)',
    'services sharing a host name use the same host_ttl',
    'ResponderModel (vlib/responder.py) is written from the statement of C03',
]
BUDGET = {'quick': {'examples': 4000}, 'thorough': {'examples': 25000, 'shards': 16}}

TYPES = ['_http._tcp.local.', '_Ipp._tcp.local.', '_printer._sub._http._tcp.local.']
BASE_OF = {'_http._tcp.local.': '_http._tcp.local.', '_Ipp._tcp.local.': '_Ipp._tcp.local.',
           '_printer._sub._http._tcp.local.': '_http._tcp.local.', '_scanner._sub._http._tcp.local.': '_http._tcp.local.',
           '_color._sub._Ipp._tcp.local.': '_Ipp._tcp.local.'}
SAME_BASE = {'_http._tcp.local.': ['_http._tcp.local.', '_printer._sub._http._tcp.local.', '_scanner._sub._http._tcp.local.'],
             '_Ipp._tcp.local.': ['_Ipp._tcp.local.', '_color._sub._Ipp._tcp.local.']}
HOSTS = [('host-a.local.', 120), ('Host-A.LOCAL.', 120), ('host-b.local.', 75), ('host-c.local.', 4500), ('gießen-nas.local.', 120)]
ADDRSETS = [['10.1.1.1'], ['fe80::1'], ['10.1.1.1', 'fe80::1'], ['10.1.1.1', '10.1.1.2'], ['10.1.1.3', 'fe80::2', 'fe80::3']]
TEXTS = ['', '00', '0361623d', '05613d62633d03783d79']
CLIENT_IP = '10.0.0.77'


@st.composite
def service_desc(draw, i: int) -> Dict[str, Any]:
    t = draw(st.sampled_from(TYPES))
    host, host_ttl = draw(st.sampled_from(HOSTS))
    # (among them letters whose full case folding is not their lower case: sharp s, micro sign, long s)
    label = draw(st.sampled_from(['inst', 'Inst', 'My Printer', 'dotted.name', 'é', 'Straße', 'µ-Lab ſ'])) + str(i)
    return {'type': t, 'name': f'{label}.{BASE_OF[t]}', 'port': draw(st.sampled_from([80, 8080, 65535])), 'server': host,
            'addrs': draw(st.sampled_from(ADDRSETS)), 'props': draw(st.sampled_from(TEXTS)), 'host_ttl': host_ttl,
            'other_ttl': draw(st.sampled_from([4500, 4500, 120, 75, 2, 1])), 'weight': draw(st.sampled_from([0, 5])),
            'priority': draw(st.sampled_from([0, 1])),
            # (the description may name the interface its link-local addresses belong to; what is offered does not change)
            'interface_index': draw(st.sampled_from([None, None, 3]))}


q_st = st.tuples(st.sampled_from(['type', 'inst', 'host', 'type', 'inst', 'host', 'enum', 'ghost', 'pool-type', 'pool-inst',
                                  'pool-host']), st.integers(0, 5), st.integers(0, 3),
                 st.sampled_from([12, 12, 1, 28, 33, 16, 255, 47, 99])).map(list)
ka_st = st.tuples(st.integers(0, 11), st.sampled_from(['below', 'at', 'above', 'full', 'zero', 'one'])).map(list)
query_st = st.fixed_dictionaries({
    'qs': st.lists(q_st, min_size=1, max_size=4),
    'ka': st.lists(ka_st, max_size=4, unique_by=lambda x: x[0]),
    'unrelated': st.integers(0, 2),
    'via': st.sampled_from(['legacy', 'legacy', 'legacy', 'qm', 'qu', 'qu']),
    'qu': st.lists(st.booleans(), min_size=4, max_size=4),      # per question, used when via == 'qu' (port 5353)
    # a port-5353 query may come in two packets: the known answers in a first packet with the TC bit, the questions (again) in a
    # second one 100 ms later - which may be a probe (authority section) of a registration the same host is making
    'split': st.sampled_from([None, None, None, None, 'tc', 'tc+probe']),
})
op_st = st.one_of(
    st.integers(0, 5).map(lambda k: ['reg', k]),
    st.integers(0, 5).map(lambda k: ['reg', k]),
    st.integers(0, 5).map(lambda k: ['unreg', k]),
    # the very ServiceInfo object that was unregistered earlier is registered again after plain attributes were changed on it
    st.tuples(st.integers(0, 5), st.integers(0, 9)).map(lambda t: ['rereg', t[0], t[1]]),
    st.tuples(st.integers(0, 5), st.sampled_from(['port', 'text', 'addrs', 'host', 'weight', 'type', 'type']),
              st.sampled_from(['mutate', 'fresh']), st.integers(0, 9)).map(lambda t: ['upd', t[0], t[1], t[2], t[3]]),
    query_st.map(lambda q: ['query', q]),
    query_st.map(lambda q: ['query', q]),
    # an address query for a host name that several services share, and one of them unregistered while the reply is still queued:
    # the host's records still answer the question (a sibling keeps them alive) and must be sent
    st.tuples(st.integers(0, 5), st.sampled_from([0, 1, 19, 30, 100, 400]), st.booleans()).map(lambda t: ['unregrace', t[0], t[1], t[2]]),
    # a query for a service, answered from the outgoing queues up to 1.2 s later, and an update of that service in between: what
    # is transmitted after the update must not carry the records the update replaced
    st.tuples(st.integers(0, 5), st.sampled_from(['port', 'text', 'addrs']), st.integers(0, 9),
              st.sampled_from([0, 1, 19, 30, 100, 400, 900]), st.sampled_from(['ptr', 'srv', 'txt', 'addr', 'any']),
              st.booleans()).map(lambda t: ['updrace', t[0], t[1], t[2], t[3], t[4], t[5]]),
)


@st.composite
def case_st(draw) -> Dict[str, Any]:
    n = draw(st.integers(1, 6))
    pool = [draw(service_desc(i)) for i in range(n)]
    ops = draw(st.lists(op_st, min_size=1, max_size=14))
    initial = draw(st.lists(st.integers(0, n - 1), unique=True, min_size=min(n, 1), max_size=n))
    return {'pool': pool, 'ops': [['reg', k] for k in initial] + ops}


def strategy(tier: str):
    return case_st()


def known_signature(case: Any, v: Violation):
    return None


def _respell(name: str, sp: int) -> str:
    return gen.recase(name, [0, 1, 2, 3][sp % 4])


def _ka_ttl(ttl: int, mode: str) -> int:
    half = ttl // 2
    return {'below': max(half - 1, 0) if ttl % 2 == 0 else half, 'at': half if ttl % 2 == 0 else half,
            'above': half + 1, 'full': ttl, 'zero': 0, 'one': 1}[mode]


class Exec:
    def __init__(self, case: Dict[str, Any]) -> None:
        self.case = case
        self.model = rp.ResponderModel()
        self.infos: Dict[int, Any] = {}       # pool index -> live ServiceInfo
        self.descs: Dict[int, Dict[str, Any]] = {}
        self.retired: Dict[int, Any] = {}      # unregistered ServiceInfo objects (may be registered again, changed in place)
        self.stats = {'queries': 0, 'expected_answers': 0, 'suppressed_or_boundary': 0, 'after_change': 0,
                      'shared_host_query': 0, 'qm_queries': 0, 'qu_queries': 0, 'mixed_qu_qm_queries': 0, 'dont_care': 0, 'nsec_expected': 0, 'enum_queries': 0}
        self.changed = False
        self.nontrivial = False
        self.port = 40000

    async def main(self, w: sim.World) -> None:
        host = w.add_host('R', socks=[('v4', '10.0.0.1')])
        self.host = host
        await host.zc.async_wait_for_start()
        pool = self.case['pool']
        for op in self.case['ops']:
            try:
                await self.step(w, host, pool, op)
            except (Violation, sim.SimBudgetExceeded):
                raise
            except Exception as e:  # noqa - a registry operation on valid arguments must not raise
                from vlib.core import HarnessError
                if isinstance(e, HarnessError):
                    raise
                raise Violation(f'{op[0]} raised {type(e).__name__} on valid arguments', {'op': op[:3], 'exc': repr(e)[:200]},
                                tag='api-raised:' + type(e).__name__)
        if w.errors:
            raise Violation('exception reached the event loop while answering', w.errors[:2], tag='loop-exception')

    async def step(self, w: sim.World, host: sim.Host, pool: List[Dict[str, Any]], op: List[Any]) -> None:
        if True:
            kind = op[0]
            k = op[1] % len(pool) if kind != 'query' else 0
            if kind == 'updrace':
                await self.update_race(w, host, k, op)
                return
            if kind == 'unregrace':
                await self.unregister_race(w, host, k, op)
                return
            if kind != 'query' and self.stats['queries']:
                # answers queued for earlier queries (aggregation / 1 s protection, <= 1.2 s) must not race registry
                # changes here: that interleaving is C08's subject, not C03's
                await asyncio.sleep(1.25)
            if kind == 'reg':
                if k in self.infos:
                    return
                d = dict(self.descs.get(k) or pool[k])
                # names must be unique case-insensitively on one instance
                if d['name'].lower() in self.model.services:
                    return
                info = sim.make_service_info(d)
                task = await host.azc.async_register_service(info)
                await task
                self.infos[k] = info
                self.descs[k] = d
                self.model.register(d)
            elif kind == 'rereg':
                if k in self.infos or k not in self.retired:
                    return
                info = self.retired.pop(k)
                d = dict(self.descs[k])
                n = op[2]
                d['port'] = [81, 8081, 1, 4444][n % 4]
                d['other_ttl'] = [4500, 60, 90][(n // 3) % 3]
                d['weight'] = n
                if d['name'].lower() in self.model.services:
                    return
                # (the host TTL stays: it belongs to the host name, which other services may share)
                info.port, info.weight, info.other_ttl = d['port'], d['weight'], d['other_ttl']
                task = await host.azc.async_register_service(info)
                await task
                self.infos[k] = info
                self.descs[k] = d
                self.model.register(d)
                self.changed = True
                self.stats['same_object_registered_again'] = self.stats.get('same_object_registered_again', 0) + 1
            elif kind == 'unreg':
                if k not in self.infos:
                    return
                self.retired[k] = self.infos[k]
                task = await host.azc.async_unregister_service(self.infos.pop(k))
                await task
                self.model.unregister(self.descs[k]['name'])
                self.changed = True
            elif kind == 'upd':
                if k not in self.infos:
                    return
                _, _, what, how, n = op
                d = dict(self.descs[k])
                if what == 'port':
                    d['port'] = [81, 8081, 1][n % 3]
                elif what == 'weight':
                    d['weight'] = n
                elif what == 'text':
                    d['props'] = TEXTS[n % len(TEXTS)]
                elif what == 'addrs':
                    d['addrs'] = ADDRSETS[n % len(ADDRSETS)]
                elif what == 'host':
                    d['server'], d['host_ttl'] = HOSTS[n % len(HOSTS)]
                elif what == 'type':
                    # the instance keeps its name and is advertised under another (sub)type of the same base type
                    alts = [t for t in SAME_BASE[BASE_OF[d['type']]] if t != d['type']]
                    d['type'] = alts[n % len(alts)]
                info = self.infos[k]
                if how == 'mutate' and what in ('port', 'weight', 'addrs'):
                    if what == 'port':
                        info.port = d['port']
                    elif what == 'weight':
                        info.weight = d['weight']
                    else:
                        info.addresses = [rp.addr_bytes(a) for a in d['addrs']]
                else:
                    info = sim.make_service_info(d)
                task = await host.azc.async_update_service(info)
                await task
                self.infos[k] = info
                self.descs[k] = d
                self.model.register(d)
                self.changed = True
            elif kind == 'query':
                await self.query(w, op[1])
            await asyncio.sleep(0.05)

    async def unregister_race(self, w: sim.World, host: sim.Host, k: int, op: List[Any]) -> None:
        if k not in self.infos:
            return
        d = self.descs[k]
        siblings = [j for j in self.infos if j != k and self.descs[j]['server'].lower() == d['server'].lower()]
        if not siblings:
            return
        _, _, gap, sighting = op
        await asyncio.sleep(1.7)
        if sighting:
            rrs = [rp.wire_rr_of_ident(i, t, flush=True) for i, t in rp.Svc(d).records_with_ttl().items() if i[0] in ('A', 'AAAA')]
            w.net.inject(host, wire.encode({'id': 0, 'flags': 0x8400, 'qd': [], 'an': rrs, 'ns': [], 'ar': []}), ('10.0.0.200', 5353))
            await asyncio.sleep(0.3)
        questions = [(d['server'], 1), (d['server'], 28)]
        n0 = len(w.net.trace)
        w.net.inject(host, rp.build_query([(nm, t, False) for nm, t in questions], [], qid=0), (CLIENT_IP, 5353))
        await asyncio.sleep(gap / 1000.0)
        self.retired[k] = self.infos[k]
        task = await host.azc.async_unregister_service(self.infos.pop(k))
        await task
        self.model.unregister(d['name'])
        self.changed = True
        await asyncio.sleep(1.7)
        exp, dont_care, _, _ = self.model.answers(questions, [])
        if any(self.descs[j]['addrs'] != self.descs[siblings[0]]['addrs'] for j in siblings):
            return          # siblings that disagree on the address set: whose view wins is outside the claim
        got = set()
        for e in w.net.trace[n0:]:
            if e['host'] != 'R' or e['dst'] != sim.MDNS4:
                continue
            m = sim.decode_trace_entry(e)
            if m is None or not m['flags'] & 0x8000:
                continue
            got |= {rp.ident_of_wire_rr(r) for r in m['an'] + m['ar'] if r['ttl'] > 0}
        missing = [i for i in exp if i[0] in ('A', 'AAAA') and i not in got]
        self.stats['unregister_races'] = self.stats.get('unregister_races', 0) + 1
        self.nontrivial = True
        if missing:
            raise Violation('an address question for a host name that a still registered service uses was left unanswered after a sibling '
                            'on that host name was unregistered while the reply was queued',
                            {'host': d['server'], 'unregistered': d['name'], 'query_to_unregister_ms': gap, 'missing': missing,
                             'still_registered': [self.descs[j]['name'] for j in siblings]}, tag='answer-missing-after-sibling-unregistered')

    async def update_race(self, w: sim.World, host: sim.Host, k: int, op: List[Any]) -> None:
        if k not in self.infos:
            return
        _, _, what, n, gap, shape, sighting = op
        await asyncio.sleep(1.7)       # nothing else is queued any more
        d_old = dict(self.descs[k])
        d = dict(d_old)
        if what == 'port':
            d['port'] = [81, 8081, 1][n % 3] if d['port'] not in (81, 8081, 1) else 4242
        elif what == 'text':
            d['props'] = TEXTS[n % len(TEXTS)] if TEXTS[n % len(TEXTS)] != d['props'] else '0171'
        else:
            d['addrs'] = ADDRSETS[n % len(ADDRSETS)]
        old = rp.Svc(d_old)
        if sighting:
            # the host has just seen its own records multicast (a peer repeating them): its answers to the query below are then
            # held back in the one-second protection queue instead of the 20-120 ms aggregation queue
            rrs = [rp.wire_rr_of_ident(i, t, flush=i[0] != 'PTR') for i, t in old.records_with_ttl().items() if i[0] != 'NSEC']
            w.net.inject(host, wire.encode({'id': 0, 'flags': 0x8400, 'qd': [], 'an': rrs, 'ns': [], 'ar': []}), ('10.0.0.200', 5353))
            await asyncio.sleep(0.3)
        qs = {'ptr': [(d_old['type'], 12)], 'srv': [(d_old['name'], 33), (d_old['type'], 12)], 'txt': [(d_old['name'], 16), (d_old['type'], 12)],
              'addr': [(d_old['server'], 1), (d_old['server'], 28), (d_old['type'], 12)], 'any': [(d_old['name'], 255), (d_old['type'], 12)]}[shape]
        w.net.inject(host, rp.build_query([(nm, t, False) for nm, t in qs], [], qid=0), (CLIENT_IP, 5353))
        await asyncio.sleep(gap / 1000.0)
        if what in ('port', 'addrs') and n % 2 == 1:
            # the application changes the registered object in place and hands the same object to async_update_service
            info = self.infos[k]
            if what == 'port':
                info.port = d['port']
            else:
                info.addresses = [rp.addr_bytes(a) for a in d['addrs']]
            self.stats['update_races_in_place'] = self.stats.get('update_races_in_place', 0) + 1
        else:
            info = sim.make_service_info(d)
        queued = len(host.zc.out_queue.queue) + len(host.zc.out_delay_queue.queue)
        task = await host.azc.async_update_service(info)
        w.gseq += 1
        g_upd, t_upd = w.gseq, w.now_ms
        await task
        self.infos[k] = info
        self.descs[k] = d
        self.model.register(d)
        self.changed = True
        await asyncio.sleep(1.5)
        current = set()
        for sv in self.model.services.values():
            current |= set(sv.records_with_ttl())
        replaced = {i for i in old.records_with_ttl() if i[0] != 'NSEC'} - current
        self.stats['update_races'] = self.stats.get('update_races', 0) + 1
        if queued and replaced:
            self.stats['update_with_answers_queued'] = self.stats.get('update_with_answers_queued', 0) + 1
            self.nontrivial = True
        for e in w.net.trace:
            if e['host'] != 'R' or e['g'] <= g_upd:
                continue
            m = sim.decode_trace_entry(e)
            if m is None or not m['flags'] & 0x8000:
                continue
            for r in m['an'] + m['ar']:
                ident = rp.ident_of_wire_rr(r)
                if ident in replaced and r['ttl'] > 0:
                    raise Violation('a reply transmitted after async_update_service had replaced a record still carries the replaced record',
                                    {'service': d['name'], 'changed': what, 'replaced_record': ident, 'ttl': r['ttl'],
                                     'query_to_update_ms': gap, 'update_to_reply_ms': round(e['t'] * 1000 - t_upd, 2), 'dst': e['dst'],
                                     'after_sighting': sighting}, tag='reply-after-update-carries-replaced-record')

    def _qname(self, q: List[Any]) -> Tuple[str, int]:
        tk, k, sp, qtype = q
        pool = self.case['pool']
        live = sorted(self.infos)
        if tk.startswith('pool-') or not live:
            tk = tk.replace('pool-', '')
            d = self.descs.get(k % len(pool)) or pool[k % len(pool)]    # possibly unregistered by now
        else:
            d = self.descs[live[k % len(live)]]
        if tk == 'type':
            name = d['type']
        elif tk == 'inst':
            name = d['name']
        elif tk == 'host':
            name = d['server']
        elif tk == 'enum':
            name, qtype = rp.ENUM, (qtype if qtype in (12, 255) else 12)
        else:
            name = 'ghost%d._http._tcp.local.' % k
        return _respell(name, sp), qtype

    async def query(self, w: sim.World, q: Dict[str, Any]) -> None:
        questions = [self._qname(x) for x in q['qs']]
        exp0, _, _, _ = self.model.answers(questions, [])
        cands = sorted(i for i in exp0 if i[0] != 'NSEC')
        known: List[Tuple[Tuple, int]] = []
        boundary = 0
        for idx, mode in q['ka']:
            if not cands:
                break
            ident = cands[idx % len(cands)]
            if any(ident == k_[0] for k_ in known):
                continue
            known.append((ident, _ka_ttl(exp0[ident], mode)))
            if mode in ('below', 'at', 'above', 'full'):
                boundary += 1
        ka_rrs = [rp.wire_rr_of_ident(i, t) for i, t in known]
        for u in range(q['unrelated']):
            ka_rrs.append(rp.wire_rr_of_ident(('A', 'elsewhere.local.', '0a0a0a%02x' % u), 120))
        exp, dont_care, allowed, producers = self.model.answers(questions, known)
        N = rp.strip_nsec_owner      # the owner name of NSEC records is outside the claim
        exp = {N(i): t for i, t in exp.items()}
        dont_care = {N(i) for i in dont_care}
        allowed = {N(i): t for i, t in allowed.items()}
        via = q['via']
        st_ = self.stats
        st_['queries'] += 1
        st_['expected_answers'] += len(exp)
        st_['suppressed_or_boundary'] += boundary
        st_['dont_care'] += 1 if dont_care else 0
        st_['nsec_expected'] += sum(1 for i in exp if i[0] == 'NSEC')
        if any(n.lower() == rp.ENUM for n, _ in questions):
            st_['enum_queries'] += 1
        hosts_asked = {n.lower() for n, t in questions if t in (1, 28)}
        shared = any(sum(1 for s in self.model.services.values() if s.server.lower() == h) > 1 for h in hosts_asked)
        if shared:
            st_['shared_host_query'] += 1
        if self.changed and exp:
            st_['after_change'] += 1
        if (self.changed and exp and boundary) or (shared and exp):
            self.nontrivial = True
        self.port += 1
        qu_bits = [bool(via == 'qu' and q.get('qu', [False] * 4)[i]) for i in range(len(questions))]
        data = rp.build_query([(n, t, u) for (n, t), u in zip(questions, qu_bits)], ka_rrs, qid=self.port & 0xFFFF)
        det = {'questions': questions, 'known': [(list(i), t) for i, t in known], 'via': via,
               'registry': sorted(self.model.services)}
        if via in ('qm', 'qu'):
            st_['qm_queries' if via == 'qm' else 'qu_queries'] += 1
            if via == 'qu' and any(qu_bits) and not all(qu_bits):
                st_['mixed_qu_qm_queries'] += 1
            await asyncio.sleep(1.7)   # drain multicast answers still queued for earlier queries
            n0 = len(w.net.trace)
            if q.get('split') and ka_rrs:
                st_['two_packet_queries'] = st_.get('two_packet_queries', 0) + 1
                first = rp.build_query([(n, t, u) for (n, t), u in zip(questions, qu_bits)][:1], ka_rrs, qid=self.port & 0xFFFF, tc=True)
                auth = [rp.wire_rr_of_ident(('PTR', '_http._tcp.local.', 'probe-candidate._http._tcp.local.'), 4500)] \
                    if q['split'] == 'tc+probe' else []
                second = rp.build_query([(n, t, u) for (n, t), u in zip(questions, qu_bits)], [], qid=self.port & 0xFFFF, authorities=auth)
                w.net.inject(self.host, first, (CLIENT_IP, 5353))
                await asyncio.sleep(0.1)
                w.net.inject(self.host, second, (CLIENT_IP, 5353))
            else:
                w.net.inject(self.host, data, (CLIENT_IP, 5353))
            await asyncio.sleep(1.7)
            # a question with the QU bit is answered by unicast to the querier (and by multicast as well when the record was
            # not multicast recently); which way each answer travels is C11's subject - here the union must be right
            msgs = [e for e in w.net.trace[n0:] if e['dst'] == sim.MDNS4 or (e['dst'] == CLIENT_IP and e['port'] == 5353)]
        else:
            n0 = len(w.net.trace)
            w.net.inject(self.host, data, (CLIENT_IP, self.port))
            msgs = [e for e in w.net.trace[n0:] if e['dst'] == CLIENT_IP and e['port'] == self.port]
        got: Dict[Tuple, int] = {}
        for e in msgs:
            m = sim.decode_trace_entry(e)
            if m is None:
                raise Violation('reply is not a well-formed DNS message', dict(det, hex=e['data'][:80]), tag='reply-malformed')
            if not m['flags'] & 0x8000:
                continue
            an_ids = set()
            an_raw = set()        # with the owner of NSEC records: two services of one host each own an NSEC record with the same content
            for r in m['an']:
                an_raw.add(rp.ident_of_wire_rr(r))
                ident = N(rp.ident_of_wire_rr(r))
                if ident is None:
                    raise Violation('reply carries a record of a foreign type', dict(det, type=r['type']), tag='foreign-type')
                an_ids.add(ident)
                if ident in got and got[ident] != r['ttl']:
                    raise Violation('same record offered with two TTLs', dict(det, ident=ident), tag='ttl-conflict')
                got[ident] = r['ttl']
            for r in m['ar']:
                ident = N(rp.ident_of_wire_rr(r))
                if ident is None or ident not in allowed:
                    if ident in dont_care:
                        return
                    raise Violation('additional record is not one of the answering services\' own SRV/TXT/address/NSEC records',
                                    dict(det, additional=ident, allowed=sorted(map(str, allowed))), tag='additional-foreign')
                if allowed[ident] != r['ttl']:
                    raise Violation('additional record carries a TTL other than the configured one',
                                    dict(det, additional=ident, ttl=r['ttl'], want=allowed[ident]), tag='additional-ttl')
                if rp.ident_of_wire_rr(r) in an_raw:
                    raise Violation('additional record repeats an answer of the same message', dict(det, ident=ident),
                                    tag='additional-repeats-answer')
        missing = [i for i in exp if i not in got and i not in dont_care]
        extra = [i for i in got if i not in exp and i not in dont_care]
        if missing:
            raise Violation('expected answer missing from the reply', dict(det, missing=missing, got=sorted(map(str, got))),
                            tag='answer-missing')
        if extra:
            raise Violation('reply offers a record the model does not expect', dict(det, extra=extra,
                                                                                  expected=sorted(map(str, exp))),
                            tag='answer-extra:' + extra[0][0])
        for i, ttl in exp.items():
            if i in got and got[i] != ttl:
                raise Violation('answer carries a TTL other than the configured one', dict(det, ident=i, ttl=got[i], want=ttl),
                                tag='answer-ttl')


def check(case: Dict[str, Any]) -> Dict[str, Any]:
    ex = Exec(case)
    with sim.World(jitter_seed=7) as w:
        w.run(ex.main(w))
    s = ex.stats
    classes = [k for k, v in s.items() if v]
    return {'nontrivial': ex.nontrivial, 'classes': classes, 'max': {'queries': s['queries'], 'services': len(case['pool'])},
            'sample': {'case': case, 'stats': s}}
