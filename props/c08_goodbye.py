"""C08 - Withdrawn services stay withdrawn: complete goodbyes, no resurrection."""
from __future__ import annotations

from typing import Any, Dict, List, Optional, Set, Tuple

from hypothesis import strategies as st

from vlib import respsim, responder as rp, sim
from vlib.core import Violation

from . import c11_routing as c11

ID = 'C08'
LEVEL = 'exploration'
RULE = ('One responder with 1-3 settled services (sharing or not sharing a host name; in a third of the cases the registry reached its shape through async_update_service calls that moved a service between host names or changed port/text), optionally watched by a peer browser on a '
        'second simulated host, receives queries (single/multi-question, QM/QU, port 5353 or legacy, TC, optionally preceded by a '
        'sighting inside the last second so the answer lands in the 1 s protection queue) at offsets from the grid {-1300,-1200,'
        '-1001,-600,-500,-499,-130,-120,-21,-20,-1,0,+1,+100,+249,+251} ms around a withdrawal (async_unregister_service of one or '
        'two services, or async_close). Oracle on the withdrawing host\'s independently decoded trace: exactly three goodbye '
        'multicasts 125 ms apart carrying TTL-0 copies of exactly PTR/SRV/TXT (+ address/NSEC records iff no still-registered '
        'service shares the host); after the third no datagram of any kind carries one of those records with TTL > 0; the peer '
        'browser never re-adds the instance. Non-trivial = >= 1 query whose answer was still queued (aggregation, TC hold or '
        'protection queue) when the withdrawal was requested.')
ASSUMPTIONS = [
    'in three quarters of the cases the registration\'s own announcements have completed before the withdrawal; in the rest the withdrawn '
    'service is unregistered 5-465 ms after its registration call returned, while its announcement task is still running',
    'observation window is 5 s after the withdrawal',
]
BUDGET = {'quick': {'examples': 2000}, 'thorough': {'examples': 16000, 'shards': 16}}
EPS = 2.0
OFFSETS = [-1300, -1200, -1001, -600, -500, -499, -130, -120, -21, -20, -1, 0, 1, 100, 249, 251, 1000, 2000]


@st.composite
def scenario(draw) -> Dict[str, Any]:
    services = draw(c11.services_st(3))
    for s_ in services:
        s_['host_ttl'], s_['other_ttl'] = 120, 4500
        if draw(st.booleans()):
            # shared host - the same host however its name is capitalised
            s_['server'], s_['addrs'] = draw(st.sampled_from(['host-a.local.', 'host-a.local.', 'Host-A.local.', 'HOST-a.Local.'])), ['10.0.0.1']
    n = len(services)
    # a third of the registries reach their final shape through updates: a service moves to another host name (leaving, or
    # joining, a host name that siblings use), or changes port / text
    pre_updates = []
    if draw(st.integers(0, 2)) == 0:
        for _ in range(draw(st.integers(1, 2))):
            k = draw(st.integers(0, n - 1))
            what = draw(st.sampled_from(['move-away', 'move-away', 'move-to-shared', 'port', 'text']))
            if what == 'move-away':
                new = {'server': 'host-moved.local.', 'addrs': ['10.0.0.7']}
            elif what == 'move-to-shared':
                new = {'server': 'host-a.local.', 'addrs': ['10.0.0.1']}
            elif what == 'port':
                new = {'port': 9000 + k}
            else:
                new = {'props': '0578793d7a7a'}
            pre_updates.append({'svc': k, 'set': new})
    items: List[Tuple[int, int, Dict[str, Any]]] = []
    how = draw(st.sampled_from(['unregister', 'unregister', 'unregister2', 'close', 'unregister-then-close']))
    if how == 'close':
        items.append((0, 1, {'kind': 'close'}))
    else:
        k = draw(st.integers(0, n - 1))
        items.append((0, 1, {'kind': 'unregister', 'svc': k, 'await': draw(st.booleans()),
                             'fresh_object': draw(st.sampled_from([False, False, True]))}))
        if draw(st.integers(0, 3)) == 0:
            # the withdrawn service was registered only just before: probing ends 525 ms after the call, and its three
            # announcements (225 ms apart, not awaited by the application) are still going on when it is unregistered
            services[k]['late'] = True
            ta = draw(st.sampled_from([None, None, 3000, 120]))
            if ta is not None:
                # ... through the legacy `ttl=` argument of (async_)register_service, which sets both TTLs of the description
                services[k]['ttl_arg'] = services[k]['host_ttl'] = services[k]['other_ttl'] = ta
            pre_updates = [u for u in pre_updates if u['svc'] != k]
            # (or it is still probing - its registration call has not returned - when the application unregisters it: it is then
            # neither registered nor announced after the goodbyes)
            items.append((-draw(st.sampled_from([530, 560, 700, 760, 900, 990, 340, 250, 100, 10])), 0, {'kind': 'register', 'svc': k}))
            if how == 'unregister' and draw(st.booleans()):
                # ... and is brought back at once under the same name with other data (a restart on another port): what is sent
                # from then on may carry the new registration's records, never those of the withdrawn one
                items.append((draw(st.sampled_from([1, 30, 100, 200, 260])), 3,
                              {'kind': 'reregister', 'svc': k, 'set': {'port': 7777, 'props': '0472653d31', 'server': 'host-re.local.',
                                                                        'addrs': ['10.0.0.66']}}))
        if how == 'unregister-then-close':
            # the application unregisters one service without waiting for the goodbyes and closes the instance right away or
            # shortly after: the service still has to be withdrawn three times before the sockets close
            items[-1][2]['await'] = False
            c_off = draw(st.sampled_from([0, 0, 1, 100, 124, 126, 200, 249, 251, 400]))
            items.append((c_off, 2, {'kind': 'close'}))
            if n > 1 and draw(st.booleans()):
                # ... while another service is still probing: its registration (350 ms) completes while the close waits for the
                # goodbyes of the first one - it is announced, so it has to be withdrawn before the sockets close as well
                j = (k + 1) % n
                if not services[j].get('late'):
                    services[j]['late'] = True
                    pre_updates = [u for u in pre_updates if u['svc'] != j]
                    items.append((draw(st.sampled_from([-340, -300, -250, -200, -150, -101])), 0, {'kind': 'register', 'svc': j}))
        if how == 'unregister2' and n > 1:
            items.append((draw(st.sampled_from([0, 1, 100, 125, 300])), 2, {'kind': 'unregister', 'svc': (k + 1) % n, 'await': True}))
    n_q = draw(st.integers(1, 5))
    qid = 1
    for _ in range(n_q):
        off = draw(st.one_of(st.sampled_from(OFFSETS), st.sampled_from(OFFSETS), st.integers(-1400, 400)))
        shape = draw(st.sampled_from(['ptr', 'ptr', 'srv', 'addr', 'multi', 'enum']))
        kk = draw(st.integers(0, n - 1))
        qu = draw(st.sampled_from([False, False, False, True]))
        if shape == 'ptr':
            qs = [['type', kk, 0, 12, qu]]
        elif shape == 'srv':
            qs = [['inst', kk, 0, draw(st.sampled_from([33, 16, 255])), qu]]
        elif shape == 'addr':
            qs = [['host', kk, 0, draw(st.sampled_from([1, 28])), qu]]
        elif shape == 'enum':
            qs = [['enum', 0, 0, 12, qu]]
        else:
            qs = [['type', kk, 0, 12, qu], ['inst', kk, 0, 33, False], ['host', kk, 0, 1, False]]
        ev = {'kind': 'query', 'qs': qs, 'ka': [], 'probe': False, 'client': draw(st.integers(0, 2)), 'family': 'v4',
              'port': draw(st.sampled_from([5353, 5353, 5353, 40001])), 'sock': 0, 'id': qid,
              'tc': draw(st.sampled_from([False, False, False, True]))}
        qid += 1
        order = draw(st.sampled_from([0, 3]))     # before or after the withdrawal when offsets tie
        if draw(st.integers(0, 3)) == 0 and off <= 0 and not services[kk].get('late'):
            # (not for a service that is yet to be registered: a peer announcing its name first would be a name conflict)
            # a sighting shortly before the query pushes its answers into the 1 s protection queue
            items.append((off - draw(st.sampled_from([1, 300, 900])), 0, {'kind': 'sighting', 'svc': kk,
                                                                         'which': ['ptr', 'srv', 'txt', 'addr']}))
        items.append((off, order, ev))
    three_paths = how != 'close' and draw(st.integers(0, 4)) == 0
    if three_paths:
        # all three answer paths hold one record of the withdrawn service at the withdrawal: an aggregated query queues it, a
        # single-question query multicasts it at once (the host hears its own packet: a sighting), and another aggregated query
        # within the next second puts it in the one-second protection queue
        kk = items[0][2]['svc'] if items[0][2].get('kind') == 'unregister' else 0
        mk = lambda qs, c: {'kind': 'query', 'qs': qs, 'ka': [], 'probe': False, 'client': c, 'family': 'v4', 'port': 5353, 'sock': 0,
                            'id': 90 + c, 'tc': False}
        d0 = draw(st.sampled_from([-70, -60, -45]))
        items.append((d0, 0, mk([['type', kk, 0, 12, False], ['inst', kk, 0, 33, False], ['host', kk, 0, 1, False]], 0)))
        items.append((d0 + 5, 0, mk([['inst', kk, 0, 33, False]], 1)))
        items.append((d0 + 15, 0, mk([['type', kk, 0, 12, False], ['inst', kk, 0, 33, False]], 2)))
    items.sort(key=lambda x: (x[0], x[1]))
    base = 1600
    events = []
    prev = min(0, items[0][0]) - base
    for off, _, ev in items:
        ev = dict(ev)
        ev['gap'] = off - prev
        ev['off'] = off
        prev = off
        events.append(ev)
    jitter = {'seed': draw(st.integers(0, 10**6))} if draw(st.integers(0, 2)) and not three_paths else \
        {'explicit': draw(st.lists(st.sampled_from([0, 100, 50]), min_size=1, max_size=4))}
    if three_paths:
        jitter = {'explicit': [100, 100, 100, 100]}      # the aggregated groups wait their full 120 ms
    return {'jitter': jitter, 'socks': 'v4', 'services': services, 'settle_ms': 1500, 'events': events, 'tail_ms': 5000,
            'pre_updates': pre_updates, 'peer': draw(st.sampled_from([False, True]))}


def strategy(tier: str):
    return scenario()


def norm(ident: Optional[Tuple]) -> Optional[Tuple]:
    if ident is not None and ident[0] == 'NSEC':
        return ('NSEC', ident[1], ident[3])
    return ident


def known_signature(case: Any, v: Violation):
    return None


def check(case: Dict[str, Any]) -> Dict[str, Any]:
    run = respsim.RespRun(case)
    run.execute()
    if run.errors:
        raise Violation('exception reached the event loop: ' + str(run.errors[0].get('exception')), run.errors[:2],
                        tag='loop-exception')
    t0 = run.t_settled_ms
    rel = lambda ms: round(ms - t0, 3)
    services = [rp.Svc(d) for d in run.sc['services']]       # after the updates, if any
    live = [not d.get('late') for d in run.sc['services']]
    withdrawals: List[Dict[str, Any]] = []
    reborn: List[Tuple[int, Set[Tuple]]] = []          # (g, records of a registration made after a withdrawal)
    for ev in run.api_events:
        if ev['kind'] == 'registered':
            live[ev['svc']] = True
            if not ev.get('re'):
                # a registration that completed later may share the host name of a service withdrawn before: the host's address
                # records are then records of a registered service again
                reborn.append((ev['g'], {norm(a) for a in services[ev['svc']].addresses()}))
            if ev.get('re'):
                services[ev['svc']] = rp.Svc(ev['desc'])
                reborn.append((ev['g'], {norm(i) for i in services[ev['svc']].records_with_ttl()}))
        elif ev['kind'] == 'unregister':
            k = ev['svc']
            live[k] = False
            s = rp.Svc(ev['desc']) if 'desc' in ev else services[k]
            w = {norm(s.ptr()), norm(s.srv()), norm(s.txt())}
            shared = any(live[j] and services[j].server.lower() == s.server.lower() for j in range(len(services)))
            if not shared:
                w |= {norm(a) for a in s.addresses()}
                if s.missing():
                    w.add(norm(s.nsec()))
            withdrawals.append({'g': ev['g'], 't': ev['t_ms'], 'W': w, 'kind': 'unregister', 'svc': k, 'shared': shared,
                                'anchor': norm(s.ptr())})
        elif ev['kind'] == 'close':
            w = set()
            for j, s in enumerate(services):
                if live[j]:
                    w |= {norm(i) for i in s.records_with_ttl()}
                    live[j] = False
            if w:
                withdrawals.append({'g': ev['g'], 't': ev['t_ms'], 'W': w, 'kind': 'close', 'shared': False})
    sends = [s for s in run.sends if s['t_ms'] >= t0 and s['msg'] is not None]
    classes = []
    queued_at_withdrawal = False
    for wd in withdrawals:
        byes = []
        for s in sends:
            if not (s['mc'] and s.get('response')) or s['g'] < wd['g']:
                continue
            zero = {norm(i) for i, ttl, _ in s['an'] + s['ar'] if ttl == 0}
            if zero and zero & wd['W'] and zero <= wd['W'] | set():
                byes.append((s, zero))
            elif zero and zero & wd['W'] and wd['kind'] == 'unregister' and wd['anchor'] in zero:
                # (a goodbye of another service of the same host may repeat the host's address records: it is not one of this
                # service's goodbyes unless it names this service's pointer)
                byes.append((s, zero))
        det = {'withdrawal': wd['kind'], 't_u': rel(wd['t']), 'expected_records': sorted(map(str, wd['W'])),
               'goodbyes': [(rel(s['t_ms']), sorted(map(str, z))) for s, z in byes]}
        if len(byes) != 3:
            raise Violation(f'{len(byes)} goodbye multicasts instead of three', det, tag='goodbye-count')
        for i, (s, zero) in enumerate(byes):
            if abs(s['t_ms'] - (wd['t'] + 125 * i)) > EPS:
                raise Violation('goodbye multicasts are not 125 ms apart starting at the withdrawal', det, tag='goodbye-timing')
            if zero != wd['W']:
                raise Violation('goodbye does not carry exactly the withdrawn records with TTL 0',
                                dict(det, missing=sorted(map(str, wd['W'] - zero)), extra=sorted(map(str, zero - wd['W']))),
                                tag='goodbye-content:' + ('missing' if wd['W'] - zero else 'extra'))
            pos = [norm(i) for i, ttl, _ in s['an'] + s['ar'] if ttl > 0]
            if pos:
                raise Violation('goodbye message also carries records with a positive TTL', dict(det, positive=pos),
                                tag='goodbye-positive')
        third = byes[2][0]
        for s in sends:
            if s['g'] <= third['g']:
                continue
            again = set().union(*[recs for g_, recs in reborn if g_ < s['g']]) if reborn else set()
            bad = [(norm(i), ttl) for i, ttl, _ in s.get('an', []) + s.get('ar', []) if ttl > 0 and norm(i) in wd['W'] and norm(i) not in again]
            if bad:
                # was the answer queued before the withdrawal was requested?  (classification only)
                raise Violation('withdrawn record transmitted with a non-zero TTL after the final goodbye',
                                dict(det, t=rel(s['t_ms']), dst=s['dst'], records=bad[:4],
                                     queries=[(rel(q['t_ms']), q['questions']) for q in run.queries]),
                                tag='resurrection-' + ('multicast' if s['mc'] else 'unicast'))
        # queued-at-withdrawal classification: a query before t_u whose multicast answer window extends past t_u
        for q in run.queries:
            if q['g'] < wd['g'] and q['t_ms'] + 1250 > wd['t'] and not q['legacy'] and any(norm(i) in wd['W'] for i in q['exp'][0]):
                if q['tc'] or q['t_ms'] + 20 <= wd['t'] + 1:
                    queued_at_withdrawal = True
    if any(ev['kind'] == 'close' for ev in run.api_events):
        # the instance was closed: whatever it announced - also a registration that completed while the close was under way - has
        # been withdrawn; the last multicast about each service's PTR/SRV/TXT carries TTL 0
        last_word: Dict[Tuple, Tuple[int, float]] = {}
        for s in sends:
            if s['mc'] and s.get('response'):
                for i, ttl, _ in s['an'] + s['ar']:
                    last_word[norm(i)] = (ttl, s['t_ms'])
        for j, sv in enumerate(services):
            for i in (sv.ptr(), sv.srv(), sv.txt()):
                lw = last_word.get(norm(i))
                if lw is not None and lw[0] > 0:
                    raise Violation('the instance was closed, but the last thing it multicast about a record of one of its services '
                                    'carried a non-zero TTL (announced, never withdrawn)',
                                    {'service': sv.name, 'record': str(norm(i)), 'ttl': lw[0], 't': rel(lw[1]),
                                     'registered_during_close': bool(run.sc['services'][j].get('late'))}, tag='close-last-word')
    if any(ev['kind'] == 'close' for ev in run.api_events) and sum(1 for d in run.sc['services'] if d.get('late')) and \
            any(ev.get('kind') == 'unregister' for ev in case['events']):
        classes.append('registration-in-flight-at-unregister-then-close')
    if run.peer_listener is not None:
        # user-visible effect: after the goodbye sequence has completed the peer must not (re-)add a withdrawn instance
        for wd in withdrawals:
            t_done = wd['t'] + 250 + 2 * EPS
            names = {i[2] for i in wd['W'] if i[0] == 'PTR'} - {i[2] for _, recs in reborn for i in recs if i[0] == 'PTR'}
            for e in run.peer_listener.events:
                if e['kind'] == 'add' and e['name'].lower() in names and e['t'] * 1000 > t_done:
                    raise Violation('peer browser re-added a withdrawn instance after the goodbye sequence had completed',
                                    {'instance': e['name'], 't': rel(e['t'] * 1000), 't_u': rel(wd['t']),
                                     'events': [(x['kind'], x['name'], rel(x['t'] * 1000)) for x in run.peer_listener.events]},
                                    tag='peer-resurrection')
        classes.append('peer-browser')
    classes.append('withdraw-' + '+'.join(w['kind'] for w in withdrawals) if withdrawals else 'no-withdrawal')
    if any(w.get('shared') for w in withdrawals):
        classes.append('shared-host')
    if queued_at_withdrawal:
        classes.append('answer-queued-at-withdrawal')
    if any(q['tc'] for q in run.queries):
        classes.append('tc')
    if case.get('pre_updates'):
        classes.append('registry-reached-through-updates')
    if any(ev['kind'] == 'registered' for ev in run.api_events) and any(w_['kind'] == 'unregister' and run.sc['services'][w_['svc']].get('late')
                                                                       for w_ in withdrawals):
        classes.append('withdrawn-while-still-announcing')
    if any(ev['kind'] == 'registered' and ev.get('re') for ev in run.api_events):
        classes.append('registered-again-with-other-data-after-the-withdrawal')
    if getattr(run, 'unregistered_while_probing', 0):
        classes.append('unregistered-while-its-registration-was-still-probing')
    if any(ev.get('kind') == 'unregister' and ev.get('fresh_object') for ev in case['events']):
        classes.append('unregistered-with-a-rebuilt-serviceinfo')
    return {'nontrivial': queued_at_withdrawal, 'classes': classes, 'max': {'queries': len(run.queries)},
            'sample': {'case': case}}
