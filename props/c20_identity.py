"""C20 - Record identity: equal records hash equal; case, TTL and flush bit ignored."""
from __future__ import annotations

import itertools
from typing import Any, Dict, Iterator, List, Optional, Tuple

from hypothesis import strategies as st

from vlib import gen
from vlib.core import Violation

ID = 'C20'
LEVEL = 'exploration'
EXHAUSTIVE = True
RULE = ('Exhaustive block: all ordered pairs over a bounded vocabulary (owner names in several spellings x eight record kinds '
        'with rdata variants differing in one field at a time x classes {IN, IN|flush, CH} x (ttl, created) variants; questions '
        'over names x {PTR, A, ANY} x {IN, IN|QU, CH}); exhaustive: true refers to this block only. Plus Hypothesis pairs over a '
        'wider vocabulary where the second record is derived from the first by 0..3 single-field edits. same(a,b) is computed '
        'from the construction parameters; ==, !=, hash, set/dict membership, DNSRRSet.suppresses and DNSCache.get/async_get_unique '
        'must agree with it. Non-trivial = pairs that are the same record but differ in spelling, TTL, created or flush bit, '
        'or that differ in exactly one identity field.')
ASSUMPTIONS = ['NSEC next-name letter case is not varied (the statement does not say which way it goes)',
               'records are compared through the public classes DNSAddress/DNSPointer/DNSText/DNSService/DNSHinfo/DNSNsec/DNSQuestion']
BUDGET = {'quick': {'examples': 3000}, 'thorough': {'examples': 40000, 'shards': 16}}

NAMES = {'quick': ['a.local.', 'A.LOCAL.', 'b.local.'],
         'thorough': ['a.local.', 'A.LOCAL.', 'b.local.', 'B.Local.', '_t._tcp.local.', '_T._TCP.local.']}
CLASSES = [(1, False), (1, True), (3, False)]
LIFE = {'quick': [(120, 5000.0), (0, 9000.0)], 'thorough': [(120, 5000.0), (0, 5000.0), (4500, 9000.0)]}

RDATA: List[Dict[str, Any]] = (
    [{'k': 'A', 'addr': a, 'scope': None} for a in ('01010101', '01010102')]
    + [{'k': 'AAAA', 'addr': a, 'scope': s} for a in ('fe80' + '00' * 13 + '01', 'fe80' + '00' * 13 + '02') for s in (None, 3)]
    + [{'k': 'PTR', 'target': t} for t in ('x.local.', 'X.Local.', 'y.local.')]
    + [{'k': 'CNAME', 'target': t} for t in ('x.local.', 'X.Local.', 'y.local.')]
    + [{'k': 'TXT', 'txt': t} for t in ('', '0161', '0141')]
    + [{'k': 'SRV', 'prio': p, 'weight': w, 'port': po, 'target': t} for (p, w, po, t) in
       [(0, 0, 80, 'h.local.'), (1, 0, 80, 'h.local.'), (0, 1, 80, 'h.local.'), (0, 0, 81, 'h.local.'),
        (0, 0, 80, 'H.LOCAL.'), (0, 0, 80, 'g.local.')]]
    + [{'k': 'HINFO', 'cpu': c, 'os': o} for c in ('c', 'C') for o in ('o', 'p')]
    + [{'k': 'NSEC', 'next': n, 'types': t} for n in ('a.local.', 'b.local.') for t in ([1], [28], [1, 28], [28, 1])]      # the type list is a set: order is not rdata
    # (types beyond 255 live in a second bitmap window: a decoded NSEC record may list them, and they are rdata like the others)
    + [{'k': 'NSEC', 'next': 'a.local.', 'types': t} for t in ([1, 28, 257], [1, 28, 256], [257])]
)
KIND_TYPE = {'A': 1, 'CNAME': 5, 'PTR': 12, 'HINFO': 13, 'TXT': 16, 'AAAA': 28, 'SRV': 33, 'NSEC': 47}
QTYPES = [12, 1, 255]
QCLASSES = [(1, False), (1, True), (3, False)]


def vocab(tier: str) -> List[Dict[str, Any]]:
    out = []
    for name in NAMES[tier]:
        for cls, flush in CLASSES:
            for ttl, created in LIFE[tier]:
                for rd in RDATA:
                    d = dict(rd)
                    d.update(name=name, cls=cls, flush=flush, ttl=ttl, created=created)
                    out.append(d)
    return out


def qvocab(tier: str) -> List[Dict[str, Any]]:
    return [{'k': 'Q', 'name': n, 'type': t, 'cls': c, 'qu': u} for n in NAMES[tier] for t in QTYPES for c, u in QCLASSES]


def make(d: Dict[str, Any], caller_keeps_using_its_list: bool = False):
    from zeroconf import DNSAddress, DNSHinfo, DNSNsec, DNSPointer, DNSQuestion, DNSService, DNSText

    k = d['k']
    if k == 'Q':
        return DNSQuestion(d['name'], d['type'], d['cls'] | (0x8000 if d['qu'] else 0))
    cls = d['cls'] | (0x8000 if d['flush'] else 0)
    typ = KIND_TYPE[k]
    c = d['created']
    if k in ('A', 'AAAA'):
        return DNSAddress(d['name'], typ, cls, d['ttl'], bytes.fromhex(d['addr']), d.get('scope'), c)
    if k in ('PTR', 'CNAME'):
        return DNSPointer(d['name'], typ, cls, d['ttl'], d['target'], c)
    if k == 'TXT':
        return DNSText(d['name'], typ, cls, d['ttl'], bytes.fromhex(d['txt']), c)
    if k == 'SRV':
        return DNSService(d['name'], typ, cls, d['ttl'], d['prio'], d['weight'], d['port'], d['target'], c)
    if k == 'HINFO':
        return DNSHinfo(d['name'], typ, cls, d['ttl'], d['cpu'], d['os'], c)
    # the caller goes on using the list it passed (appends a type, re-uses it for another record): the record made from it stays
    # what it was made as
    types = list(d['types'])
    rec = DNSNsec(d['name'], typ, cls, d['ttl'], d['next'], types, c)
    if caller_keeps_using_its_list:
        types.append(255)
        types.reverse()
    return rec


def identity(d: Dict[str, Any]) -> Tuple:
    k = d['k']
    if k == 'Q':
        return ('Q', d['name'].lower(), d['type'], d['cls'])
    base = (k, d['name'].lower(), KIND_TYPE[k], d['cls'])
    if k in ('A', 'AAAA'):
        return base + (d['addr'], d.get('scope'))
    if k in ('PTR', 'CNAME'):
        return base + (d['target'].lower(),)
    if k == 'TXT':
        return base + (d['txt'],)
    if k == 'SRV':
        return base + (d['prio'], d['weight'], d['port'], d['target'].lower())
    if k == 'HINFO':
        return base + (d['cpu'], d['os'])
    return base + (d['next'], tuple(sorted(d['types'])))


class _KnownAnswers:
    """stands in for an incoming query: suppressed_by() only asks it for its answers"""

    def __init__(self, records: List[Any]) -> None:
        self._records = records

    def answers(self) -> List[Any]:
        return self._records


def check_pair(da: Dict[str, Any], db: Dict[str, Any]) -> Dict[str, Any]:
    from zeroconf import DNSCache
    from zeroconf._dns import DNSRRSet

    a, b = make(da, True), make(db)
    ia, ib = identity(da), identity(db)
    same = ia == ib
    det = {'a': da, 'b': db, 'same': same}
    try:
        eq_ab, eq_ba, ne_ab = (a == b), (b == a), (a != b)
        ha, hb = hash(a), hash(b)
    except Exception as e:  # noqa
        raise Violation(f'comparison raised {type(e).__name__}', det, tag='raised')
    if eq_ab != same or eq_ba != same:
        raise Violation(f'a == b is {eq_ab}, b == a is {eq_ba}, expected {same}', det, tag='eq')
    if ne_ab == same:
        raise Violation(f'a != b is {ne_ab}, expected {not same}', det, tag='ne')
    if same and ha != hb:
        raise Violation('same record, different hashes', det, tag='hash')
    if (len({a, b}) == 1) != same:
        raise Violation(f'set of both has {len({a, b})} elements, same={same}', det, tag='set')
    if ({a: 1}.get(b) == 1) != same:
        raise Violation('dict lookup disagrees with identity', det, tag='dict')
    if da['k'] != 'Q' and db['k'] != 'Q':
        sup = DNSRRSet([a]).suppresses(b)
        if not same and sup:
            raise Violation('known-answer set with a suppresses a different record b', det, tag='suppress')
        if same and sup != (da['ttl'] > db['ttl'] / 2):
            raise Violation('known-answer suppression of the same record disagrees with the half-TTL rule', det,
                            tag='suppress-ttl')
        # the other entry point to the same rule: record.suppressed_by(incoming message), which DNSOutgoing.add_answer uses
        sup2 = b.suppressed_by(_KnownAnswers([a]))
        if not same and sup2:
            raise Violation('b.suppressed_by(message listing a) is true for a different record', det, tag='suppressed_by')
        if same and sup2 != (da['ttl'] > db['ttl'] / 2):
            raise Violation('b.suppressed_by(message listing the same record) disagrees with the half-TTL rule', det,
                            tag='suppressed_by-ttl')
        cache = DNSCache()
        cache._async_add(a)  # the cache's own add path (what the record manager calls)
        got = cache.get(b)
        got_u = cache.async_get_unique(b)
        if (got is a) != same or (got_u is a) != same:
            raise Violation(f'cache holding a returns {got!r}/{got_u!r} for b, same={same}', det, tag='cache')
    cosmetic = same and any(da.get(f) != db.get(f) for f in ('name', 'ttl', 'created', 'flush', 'target', 'qu'))
    one_field = (not same) and sum(1 for x, y in zip(ia, ib) if x != y) == 1 and len(ia) == len(ib)
    classes = ['same' if same else 'different', da['k'] + '/' + db['k'] if da['k'] != db['k'] else da['k']]
    if cosmetic:
        classes.append('same-but-cosmetically-different')
    if one_field:
        classes.append('differ-in-one-identity-field')
    return {'nontrivial': cosmetic or one_field, 'classes': classes[:1] + classes[2:], 'sample': det}


def check(case: Dict[str, Any]) -> Dict[str, Any]:
    return check_pair(case['a'], case['b'])


def enumerate_cases(tier: str, shard: int, nshards: int) -> Iterator[Dict[str, Any]]:
    v = vocab(tier)
    q = qvocab(tier)
    idx = 0
    for da in v:
        idx += 1
        if idx % nshards != shard:
            continue
        for db in v:
            yield {'a': da, 'b': db}
        for dq in q[:9]:
            yield {'a': da, 'b': dq}
            yield {'a': dq, 'b': da}
    for i, da in enumerate(q):
        if i % nshards != shard:
            continue
        for db in q:
            yield {'a': da, 'b': db}


# ---- random pairs over a wider vocabulary ------------------------------------------------------------

@st.composite
def wide_pair(draw) -> Dict[str, Any]:
    names = draw(gen.name_pool(min_size=2, max_size=4, max_label=20, long_names=False))
    if draw(st.integers(0, 5)) == 0:
        a: Dict[str, Any] = draw(gen.question(names))
        a['k'] = 'Q'
        a['cls'] = a['cls'] & 0x7FFF
    else:
        a = draw(gen.record(names, max_rdata=8))
        a['created'] = float(draw(st.sampled_from([1, 5000, 9000])))
        if a['k'] == 'TXT':
            a['txt'] = gen.txt_bytes(a.pop('txt_len'), a.pop('txt_seed')).hex()
        if a['k'] in ('A', 'AAAA'):
            a['scope'] = draw(st.sampled_from([None, None, 0, 3])) if a['k'] == 'AAAA' else None
    b = dict(a)
    edits = draw(st.lists(st.sampled_from(['recase-name', 'recase-target', 'ttl', 'flush', 'created', 'cls', 'name',
                                           'rdata', 'kind', 'scope']), max_size=3))
    for e in edits:
        if e == 'recase-name':
            b['name'] = gen.recase(b['name'], draw(st.sampled_from([1, 2, 3])))
        elif e == 'recase-target' and 'target' in b:
            b['target'] = gen.recase(b['target'], draw(st.sampled_from([1, 2, 3])))
        elif e == 'ttl' and 'ttl' in b:
            b['ttl'] = draw(st.sampled_from([0, 1, 60, 120, 4500]))
        elif e == 'flush':
            if 'flush' in b:
                b['flush'] = not b['flush']
            else:
                b['qu'] = not b['qu']
        elif e == 'created' and 'created' in b:
            b['created'] = 12345.0
        elif e == 'cls':
            b['cls'] = draw(st.sampled_from([1, 3, 255]))
        elif e == 'name':
            b['name'] = draw(st.sampled_from(names))
        elif e == 'scope' and b['k'] == 'AAAA':
            b['scope'] = draw(st.sampled_from([None, 0, 3, 4]))
        elif e == 'rdata':
            k = b['k']
            if k in ('A', 'AAAA'):
                b['addr'] = b['addr'][:-2] + ('00' if b['addr'][-2:] != '00' else '01')
            elif k in ('PTR', 'CNAME', 'SRV') and draw(st.booleans()):
                b['target'] = draw(st.sampled_from(names))
            elif k == 'SRV':
                f = draw(st.sampled_from(['prio', 'weight', 'port']))
                b[f] = (b[f] + 1) % 65536
            elif k == 'TXT':
                b['txt'] = b['txt'] + '00'
            elif k == 'HINFO':
                f = draw(st.sampled_from(['cpu', 'os']))
                b[f] = b[f].swapcase() if b[f].swapcase() != b[f] else b[f] + 'z'
            elif k == 'NSEC':
                how = draw(st.integers(0, 2))
                if how == 0:
                    b['types'] = list(reversed(b['types'])) if len(b['types']) > 1 else [28, 12, 1]     # same set, other order (or another set)
                elif how == 1:
                    b['types'] = sorted(set(b['types']) ^ {draw(st.one_of(st.integers(1, 255), st.sampled_from([256, 257, 511, 512, 65535])))}) or [1]
                else:
                    b['next'] = draw(st.sampled_from(names))
            elif k == 'Q':
                b['type'] = draw(st.sampled_from([1, 12, 255]))
        elif e == 'kind' and b['k'] in ('PTR', 'CNAME'):
            b['k'] = 'CNAME' if b['k'] == 'PTR' else 'PTR'
    return {'a': a, 'b': b}



def FLAKY_IS_VIOLATION(case: Any) -> bool:
    """This check is a pure function of the case (no clock, no threads, no randomness outside the case): when a violation is
    observed and the very same case passes on Hypothesis' re-run, the library has carried state from an earlier case into
    this one (a process-wide memo, a shared container) - on a correct tree the objects of one case cannot affect the next.
    What was seen stands."""
    return True


def strategy(tier: str):
    return wide_pair()
