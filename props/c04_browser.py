"""C04 - Browser callbacks alternate add/remove and always match the cache."""
from __future__ import annotations

import asyncio
from typing import Any, Dict, List, Optional, Set, Tuple

from hypothesis import strategies as st

from vlib import sim, wire
from vlib.core import Violation

ID = 'C04'
LEVEL = 'exploration'
RULE = ('One real instance with 1-3 AsyncServiceBrowsers (single- and multi-type over three unrelated types, created at the start '
        'or later when no expired-but-unpurged pointer of their types is cached) receives generated histories of response '
        'datagrams (PTR records owned by exactly the browsed type: new, refreshed, re-cased across datagrams, goodbye, cache-flush, '
        'repeated in one datagram, TTL in {0,1,2,1124,1125,4500}, plus SRV/TXT/A records of the instances, incl. datagrams that mix a '
        'pointer goodbye/announcement with changed SRV/TXT/A data of the same instance in any order) and clock steps from 0 ms '
        'to hours (expiry is discovered by the engine\'s own 10 s purge). Oracle: per (browser,type,instance) callbacks match '
        '(Added Removed)* Added?; after every op the live set equals the PTR aliases held in the real cache (case-insensitively); '
        'inside add_service the triggering datagram\'s records are already cached. Non-trivial = history with a Removed followed by '
        'a re-Added of the same instance, or an expiry discovered by the purge, or a datagram with >= 2 state changes.')
ASSUMPTIONS = [
    'restrictions stated in the property: pointer owner spelled exactly as the browsed type, no sub/super-types, no two case '
    'variants of one name inside a datagram, browsers created only while no expired-but-unpurged pointer of their types is cached',
    'which outcome a datagram has that lists one record with a zero and a non-zero TTL is outside the claim; the callbacks must agree with the cache either way',
]
BUDGET = {'quick': {'examples': 2500}, 'thorough': {'examples': 20000, 'shards': 16}}

TYPES = ['_a._tcp.local.', '_b._tcp.local.', '_c._udp.local.']
HOSTS = ['h0.local.', 'h1.local.']
PEER = ('10.0.0.9', 5353)
TICKS = [0, 1, 500, 999, 1001, 9999, 10001, 1125000, 4500000]
TTLS = [0, 1, 2, 1124, 1125, 4500, 4500, 4500]


ODD = 4      # an instance whose label is 26 bytes on the wire, 24 of them invalid UTF-8: decoded with replacement characters it
#              cannot be written again (78 bytes) - still a pointer like any other for the cache, and for the browser


def inst_label(ii: int, sp: int) -> bytes:
    if ii == ODD:
        return (b'I4' if sp else b'i4') + b'\xff' * 24
    return (('Inst%d' if sp else 'inst%d') % ii).encode()


def inst_labels(ti: int, ii: int, sp: int) -> List[bytes]:
    return [inst_label(ii, sp)] + wire.labels_of(TYPES[ti])


def inst_name(ti: int, ii: int, sp: int) -> str:
    """the text form the library gives the name (invalid UTF-8 decoded with replacement characters)"""
    return f"{inst_label(ii, sp).decode('utf-8', 'replace')}.{TYPES[ti]}"


TI = st.sampled_from([0, 0, 0, 1, 2])
II = st.sampled_from([0, 0, 0, 1, 1, 2, 3, ODD])
ptr_st = st.fixed_dictionaries({'k': st.just('PTR'), 'type': TI, 'inst': II, 'sp': st.integers(0, 1),
                                'ttl': st.sampled_from(TTLS), 'flush': st.sampled_from([False, False, False, True])})
srv_st = st.fixed_dictionaries({'k': st.just('SRV'), 'type': TI, 'inst': II, 'sp': st.integers(0, 1),
                                'ttl': st.sampled_from([0, 120, 120]), 'flush': st.booleans(), 'host': st.integers(0, 1),
                                'port': st.sampled_from([80, 81])})
txt_st = st.fixed_dictionaries({'k': st.just('TXT'), 'type': TI, 'inst': II, 'sp': st.integers(0, 1),
                                'ttl': st.sampled_from([0, 4500]), 'flush': st.booleans(), 'txt': st.sampled_from(['00', '0161'])})
a_st = st.fixed_dictionaries({'k': st.just('A'), 'host': st.integers(0, 1), 'ttl': st.sampled_from([0, 120]), 'flush': st.booleans(),
                              'addr': st.sampled_from(['0a000005', '0a000006'])})


@st.composite
def resp_op(draw):
    recs = draw(st.lists(st.one_of(ptr_st, ptr_st, ptr_st, srv_st, txt_st, a_st), min_size=1, max_size=5))
    if draw(st.integers(0, 4)) == 0:
        recs.append(dict(recs[0]))
    return ['resp', recs]


@st.composite
def announce_op(draw):
    """A realistic full announcement (PTR + SRV + TXT + A) of one instance - or its goodbye."""
    ti, ii, sp = draw(TI), draw(II), draw(st.integers(0, 1))
    bye = draw(st.sampled_from([False, False, True]))
    h = draw(st.integers(0, 1))
    return ['resp', [
        {'k': 'PTR', 'type': ti, 'inst': ii, 'sp': sp, 'ttl': 0 if bye else 4500, 'flush': False},
        {'k': 'SRV', 'type': ti, 'inst': ii, 'sp': sp, 'ttl': 0 if bye else 120, 'flush': True, 'host': h, 'port': 80},
        {'k': 'TXT', 'type': ti, 'inst': ii, 'sp': sp, 'ttl': 0 if bye else 4500, 'flush': True, 'txt': '00'},
        {'k': 'A', 'host': h, 'ttl': 0 if bye else 120, 'flush': True, 'addr': '0a000005'}]]


tick_op = st.one_of(st.sampled_from(TICKS), st.integers(0, 20000), st.integers(0, 3 * 3600 * 1000)).map(lambda ms: ['tick', ms])
browser_op = st.tuples(st.lists(st.integers(0, 2), min_size=1, max_size=3, unique=True)).map(lambda t: ['browser', sorted(t[0])])


@st.composite
def churn(draw):
    """announce X ; wait ; withdraw X (goodbye, flush by a sibling, or expiry) ; wait ; announce X again (maybe re-cased)."""
    ti, ii = draw(TI), draw(II)
    p = lambda ttl, sp, fl=False: {'k': 'PTR', 'type': ti, 'inst': ii, 'sp': sp, 'ttl': ttl, 'flush': fl}
    ttl1 = draw(st.sampled_from([1, 1125, 4500]))
    ops = [['resp', [p(ttl1, draw(st.integers(0, 1)))]], ['tick', draw(st.sampled_from([0, 1, 500, 1001, 5000]))]]
    how = draw(st.sampled_from(['goodbye', 'goodbye', 'expire', 'flush', 'refresh+goodbye']))
    if how == 'goodbye':
        ops.append(['resp', [p(0, draw(st.integers(0, 1)))]])
    elif how == 'refresh+goodbye':
        # one datagram lists the cached pointer with its full TTL and then with TTL 0 (or the other way round): whichever way the
        # cache takes it, the callbacks have to agree with it
        both = [p(4500, draw(st.integers(0, 1))), p(0, draw(st.integers(0, 1)))]
        ops.append(['resp', both if draw(st.booleans()) else both[::-1]])
    elif how == 'expire':
        ops.append(['tick', draw(st.sampled_from([1125000, 1126000, 1135001, 4500000, 4510001]))])
    else:
        ops.append(['resp', [{'k': 'PTR', 'type': ti, 'inst': (ii + 1) % 4, 'sp': 0, 'ttl': 4500, 'flush': True}]])
        ops.append(['tick', draw(st.sampled_from([999, 1001, 10001, 11001]))])
    ops.append(['tick', draw(st.sampled_from([0, 1, 9999, 10001]))])
    if draw(st.integers(0, 2)) == 0:
        # ... or a *different* instance of the type is announced at that point (X has run out, the purge may not have come yet)
        ops.append(['resp', [{'k': 'PTR', 'type': ti, 'inst': (ii + 2) % 4, 'sp': 0, 'ttl': 4500, 'flush': False}]])
        ops.append(['tick', draw(st.sampled_from([1, 10001]))])
    else:
        ops.append(['resp', [p(draw(st.sampled_from([2, 4500])), draw(st.integers(0, 1)))]])
    return ops


@st.composite
def mixed(draw):
    """One datagram about one instance that mixes pointer changes with changed SRV/TXT/A data in any order (so one batch of
    callbacks holds several state changes of the same instance), usually after that instance was announced."""
    ti, ii, sp = draw(TI), draw(II), draw(st.integers(0, 1))
    h = draw(st.integers(0, 1))
    parts = [
        {'k': 'PTR', 'type': ti, 'inst': ii, 'sp': sp, 'ttl': draw(st.sampled_from([0, 0, 4500])), 'flush': False},
        {'k': 'SRV', 'type': ti, 'inst': ii, 'sp': sp, 'ttl': 120, 'flush': True, 'host': h, 'port': draw(st.sampled_from([80, 81]))},
        {'k': 'TXT', 'type': ti, 'inst': ii, 'sp': sp, 'ttl': 4500, 'flush': True, 'txt': draw(st.sampled_from(['00', '0161']))},
        {'k': 'A', 'host': h, 'ttl': 120, 'flush': True, 'addr': draw(st.sampled_from(['0a000005', '0a000006']))}]
    keep = draw(st.lists(st.integers(0, 3), min_size=2, max_size=4, unique=True))
    if 0 not in keep:
        keep[draw(st.integers(0, len(keep) - 1))] = 0
    recs = [parts[i] for i in draw(st.permutations(sorted(set(keep))))]
    ops = []
    if draw(st.integers(0, 2)) > 0:
        ops += [['resp', [
            {'k': 'PTR', 'type': ti, 'inst': ii, 'sp': sp, 'ttl': 4500, 'flush': False},
            {'k': 'SRV', 'type': ti, 'inst': ii, 'sp': sp, 'ttl': 120, 'flush': True, 'host': h, 'port': 80},
            {'k': 'TXT', 'type': ti, 'inst': ii, 'sp': sp, 'ttl': 4500, 'flush': True, 'txt': '00'},
            {'k': 'A', 'host': h, 'ttl': 120, 'flush': True, 'addr': '0a000005'}]],
            ['tick', draw(st.sampled_from([0, 1, 1500, 5000]))]]
    ops.append(['resp', recs])
    if draw(st.booleans()):
        ops += [['tick', draw(st.sampled_from([0, 1, 1500]))], ['resp', [{'k': 'PTR', 'type': ti, 'inst': ii, 'sp': sp, 'ttl': 4500, 'flush': False}]]]
    return ops


def strategy(tier: str):
    return st.fixed_dictionaries({
        'browsers': st.lists(st.lists(st.integers(0, 2), min_size=1, max_size=3, unique=True).map(sorted), min_size=1, max_size=2),
        'ops': st.lists(st.one_of(resp_op().map(lambda o: [o]), resp_op().map(lambda o: [o]), announce_op().map(lambda o: [o]),
                                  announce_op().map(lambda o: [o]), tick_op.map(lambda o: [o]), tick_op.map(lambda o: [o]),
                                  browser_op.map(lambda o: [o]), churn(), mixed()),
                        min_size=1, max_size=14 if tier == 'quick' else 28).map(lambda cs: [o for c in cs for o in c]),
        'spawn': st.one_of(st.none(), st.none(), st.fixed_dictionaries({
            'after': st.integers(0, 4), 'types': st.lists(st.integers(0, 2), min_size=1, max_size=2, unique=True).map(sorted)})),
        # the listener has no update_service method (optional; the library only warns)
        'no_update': st.sampled_from([False, False, False, False, True]),
        'api': st.sampled_from(['listener', 'listener', 'handlers']),
        'one_shot_handler': st.booleans(),
        # the application builds the handlers=[...] argument of all its browsers in one list object, which it clears afterwards
        'app_reuses_its_handlers_list': st.booleans(),
    })


def known_signature(case: Any, v: Violation):
    return None


def to_rr(r: Dict[str, Any]) -> Dict[str, Any]:
    cls = 1 | (0x8000 if r['flush'] else 0)
    if r['k'] == 'PTR':
        return {'name': wire.labels_of(TYPES[r['type']]), 'type': 12, 'cls': cls, 'ttl': r['ttl'],
                'rd': {'target': inst_labels(r['type'], r['inst'], r['sp'])}}
    if r['k'] == 'SRV':
        return {'name': inst_labels(r['type'], r['inst'], r['sp']), 'type': 33, 'cls': cls, 'ttl': r['ttl'],
                'rd': {'prio': 0, 'weight': 0, 'port': r['port'], 'target': wire.labels_of(HOSTS[r['host']])}}
    if r['k'] == 'TXT':
        return {'name': inst_labels(r['type'], r['inst'], r['sp']), 'type': 16, 'cls': cls, 'ttl': r['ttl'],
                'rd': {'txt': bytes.fromhex(r['txt'])}}
    return {'name': wire.labels_of(HOSTS[r['host']]), 'type': 1, 'cls': cls, 'ttl': r['ttl'], 'rd': {'addr': bytes.fromhex(r['addr'])}}


def rec_identity(r: Dict[str, Any]) -> Tuple:
    if r['k'] == 'PTR':
        return ('PTR', r['type'], r['inst'])
    if r['k'] == 'SRV':
        return ('SRV', r['type'], r['inst'], r['host'], r['port'])
    if r['k'] == 'TXT':
        return ('TXT', r['type'], r['inst'], r['txt'])
    return ('A', r['host'], r['addr'])


class Exec:
    def __init__(self, case: Dict[str, Any]) -> None:
        self.case = case
        self.browsers: List[Tuple[Any, sim.RecListener, List[str]]] = []
        self.current: Optional[List[Dict[str, Any]]] = None
        self.stats = {'browser_started_inside_callback': 0, 'datagrams': 0, 'removed_then_readded': 0, 'purge_removals': 0, 'multi_change_datagrams': 0,
                      'late_browsers': 0, 'late_browser_skipped': 0, 'callbacks': 0, 'goodbyes': 0, 'flush': 0,
                      'contradictory_dropped': 0, 'add_lookups': 0}
        self.in_inject = False
        self.pending: Optional[Violation] = None
        self.spawned = False
        self.n_callbacks = 0

    def on_add(self, lst: sim.RecListener, zc: Any, type_: str, name: str, ev: Dict[str, Any]) -> None:
        """Runs inside add_service: the triggering datagram's records must already be in the cache."""
        self.stats['add_lookups'] += 1
        ptrs = [r for r in zc.cache.entries_with_name(type_) if r.type == 12 and r.alias.lower() == name.lower()]
        if not ptrs:
            self.pending = self.pending or Violation('add_service fired but the pointer record is not in the cache',
                                                     {'type': type_, 'name': name, 't': ev['t']}, tag='add-before-cache')
            return
        if self.current is None:
            return
        for r in self.current:
            if r['k'] in ('SRV', 'TXT') and r['ttl'] and inst_name(r['type'], r['inst'], r['sp']).lower() == name.lower():
                typ = 33 if r['k'] == 'SRV' else 16
                if not zc.cache.get_all_by_details(name, typ, 1):
                    self.pending = self.pending or Violation(
                        f'lookup from inside add_service does not see the {r["k"]} record of the triggering datagram',
                        {'type': type_, 'name': name}, tag='add-lookup-misses-record')

    async def main(self, w: sim.World) -> None:
        from zeroconf.asyncio import AsyncServiceBrowser

        host = w.add_host('B')
        zc = host.zc
        await zc.async_wait_for_start()

        spawn = self.case.get('spawn')
        run = self

        class Listener(sim.RecListener):
            # the usual application pattern: a callback of one browser starts another browser (e.g. one per discovered type)
            def _log(self_, kind: str, zc_: Any, type_: str, name: str) -> Dict[str, Any]:
                e = sim.RecListener._log(self_, kind, zc_, type_, name)
                if spawn is not None and not run.spawned:
                    run.n_callbacks += 1
                    if run.n_callbacks > spawn['after'] and len(run.browsers) < 3:
                        run.spawned = True
                        now = w.now_ms
                        if any(r.type == 12 and r.is_expired(now) for ti in spawn['types'] for r in zc.cache.entries_with_name(TYPES[ti])):
                            run.stats['late_browser_skipped'] += 1
                        else:
                            new_browser(spawn['types'])
                            run.stats['browser_started_inside_callback'] += 1
                return e

        class ListenerWithoutUpdate(Listener):
            # update_service is optional (the library warns that it will become mandatory one day)
            def __getattribute__(self_, name: str) -> Any:
                if name == 'update_service':
                    raise AttributeError(name)
                return super().__getattribute__(name)

        def new_browser(tis: List[int]) -> None:
            types = [TYPES[i] for i in tis]
            lst = (ListenerWithoutUpdate if self.case.get('no_update') else Listener)(w, on_add=self.on_add)
            import warnings

            with warnings.catch_warnings():
                warnings.simplefilter('ignore', FutureWarning)
                if self.case.get('api') == 'handlers' and not self.case.get('no_update'):
                    # the other documented way to be told: a plain callable in handlers=[...] that receives the state change
                    def on_change(zeroconf: Any, service_type: str, name: str, state_change: Any, _l: Any = lst) -> None:
                        getattr(_l, {'Added': 'add_service', 'Removed': 'remove_service', 'Updated': 'update_service'}[state_change.name])(
                            zeroconf, service_type, name)

                    holder: Dict[str, Any] = {}

                    def one_shot(zeroconf: Any, service_type: str, name: str, state_change: Any) -> None:
                        # "wake me at the first event": a second handler, listed first, that unregisters itself from its callback
                        if 'br' in holder and not holder.get('gone'):      # (callbacks fired from the constructor come too early)
                            holder['gone'] = True
                            holder['br'].service_state_changed.unregister_handler(one_shot)

                    hs = [one_shot, on_change] if self.case.get('one_shot_handler') else [on_change]
                    if self.case.get('app_reuses_its_handlers_list'):
                        mine = self.__dict__.setdefault('app_handlers_list', [])
                        mine.clear()
                        mine.extend(hs)
                        hs = mine
                        self.stats['handlers_list_reused_and_cleared_by_the_application'] = 1
                    br = AsyncServiceBrowser(zc, types if len(types) > 1 else types[0], handlers=hs)
                    if hs is self.__dict__.get('app_handlers_list'):
                        hs.clear()                     # the list is the application's own
                    holder['br'] = br
                    self.stats['browser_with_handlers'] = self.stats.get('browser_with_handlers', 0) + 1
                    if len(hs) > 1:
                        self.stats['one_shot_handler_ahead_of_the_tracking_one'] = 1
                else:
                    br = AsyncServiceBrowser(zc, types if len(types) > 1 else types[0], listener=lst)
            self.browsers.append((br, lst, types))

        for tis in self.case['browsers']:
            new_browser(tis)
        msg_id = 1
        for step, op in enumerate(self.case['ops']):
            kind = op[0]
            before = [len(l.events) for _, l, _ in self.browsers]
            if kind == 'tick':
                await asyncio.sleep(op[1] / 1000.0)
                for (_, l, _), b in zip(self.browsers, before):
                    self.stats['purge_removals'] += sum(1 for e in l.events[b:] if e['kind'] == 'remove')
            elif kind == 'browser':
                if len(self.browsers) >= 3:
                    continue
                now = w.now_ms
                stale = any(r.type == 12 and r.is_expired(now) for ti in op[1] for r in zc.cache.entries_with_name(TYPES[ti]))
                if stale:
                    self.stats['late_browser_skipped'] += 1
                    continue
                self.current = None
                new_browser(op[1])
                self.stats['late_browsers'] += 1
            elif kind == 'resp':
                recs = []
                spelling: Dict[Tuple[int, int], int] = {}
                for r in op[1]:
                    r = dict(r)
                    if 'inst' in r:
                        r['sp'] = spelling.setdefault((r['type'], r['inst']), r['sp'])   # one spelling per datagram
                    recs.append(r)
                seen: Dict[Tuple, Set[bool]] = {}
                for r in recs:
                    seen.setdefault(rec_identity(r), set()).add(r['ttl'] == 0)
                if any(len(v) == 2 for v in seen.values()):
                    # one record with a zero and a non-zero TTL in one datagram: which of the two outcomes the cache ends up with is
                    # outside the claim, but whatever it is, the callbacks have to agree with it
                    self.stats['contradictory_kept'] = self.stats.get('contradictory_kept', 0) + 1
                data = wire.encode({'id': msg_id, 'flags': 0x8400, 'qd': [], 'an': [to_rr(r) for r in recs], 'ns': [], 'ar': []})
                msg_id += 1
                self.current = recs
                self.stats['datagrams'] += 1
                self.stats['goodbyes'] += sum(1 for r in recs if r['k'] == 'PTR' and r['ttl'] == 0)
                self.stats['flush'] += sum(1 for r in recs if r['k'] == 'PTR' and r['flush'])
                w.net.inject(host, data, PEER)
                self.current = None
                for (_, l, _), b in zip(self.browsers, before):
                    changes = [e for e in l.events[b:] if e['kind'] in ('add', 'remove')]
                    if len(changes) >= 2:
                        self.stats['multi_change_datagrams'] += 1
            if self.pending:
                raise self.pending
            if w.errors:
                err = w.errors[0]
                raise Violation('exception reached the event loop: ' + str(err.get('exception')), w.errors[:2], tag='loop-exception')
            self.check_invariants(zc, step)
        self.stats['callbacks'] = sum(len(l.events) for _, l, _ in self.browsers)

    def check_invariants(self, zc: Any, step: int) -> None:
        for bi, (br, lst, types) in enumerate(self.browsers):
            state: Dict[Tuple[str, str], str] = {}
            for e in lst.events:
                if e['kind'] == 'update':
                    continue
                key = (e['type'], e['name'].lower())
                prev = state.get(key, 'remove')
                if e['kind'] == prev:
                    raise Violation(f"browser delivered two consecutive {e['kind']} callbacks for one instance",
                                    {'browser': bi, 'type': e['type'], 'name': e['name'], 'step': step,
                                     'events': [(x['kind'], x['name'], round(x['t'] - sim.T0, 3)) for x in lst.events
                                                if x['name'].lower() == e['name'].lower()][-6:]},
                                    tag='alternation-' + e['kind'])
                if prev == 'add' and e['kind'] == 'add':
                    pass
                if e['kind'] == 'add' and key in state:
                    self.stats['removed_then_readded'] += 1 if not getattr(self, '_counted_' + str(id(e)), False) else 0
                state[key] = e['kind']
            live = lst.live()
            for t in types:
                cached = {r.alias.lower() for r in zc.cache.entries_with_name(t) if r.type == 12}
                got = live.get(t, set())
                if got != cached:
                    raise Violation('browser live set differs from the pointer records held in the cache',
                                    {'browser': bi, 'type': t, 'step': step, 'reported_live': sorted(got),
                                     'cache': sorted(cached)}, tag='live-vs-cache:' + ('missing' if cached - got else 'stale'))
            unknown = set(live) - set(types)
            if any(live[t] for t in unknown):
                raise Violation('browser reported a type it does not browse', {'types': sorted(unknown)}, tag='foreign-type')


def check(case: Dict[str, Any]) -> Dict[str, Any]:
    ex = Exec(case)
    with sim.World(jitter_seed=5) as w:
        w.run(ex.main(w))
    s = ex.stats
    readded = 0
    for _, lst, _ in ex.browsers:
        seen_removed = set()
        for e in lst.events:
            k = (e['type'], e['name'].lower())
            if e['kind'] == 'remove':
                seen_removed.add(k)
            elif e['kind'] == 'add' and k in seen_removed:
                readded += 1
    s['removed_then_readded'] = readded
    classes = [k for k, v in s.items() if v]
    if case.get('no_update'):
        classes.append('listener-without-update_service')
    if len(case['browsers']) > 1 or s['late_browsers']:
        classes.append('multi-browser')
    if any(len(b) > 1 for b in case['browsers']):
        classes.append('multi-type-browser')
    return {'nontrivial': bool(readded or s['purge_removals'] or s['multi_change_datagrams']), 'classes': classes,
            'max': {'ops': len(case['ops']), 'callbacks': s['callbacks']}, 'sample': {'case': case, 'stats': s}}
