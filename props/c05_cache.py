"""C05 - Record cache: all lookup paths agree with an RFC 6762 section 10 model."""
from __future__ import annotations

import itertools
from typing import Any, Dict, Iterator, List

from hypothesis import strategies as st

from vlib import cachehist as ch
from vlib.core import Violation

ID = 'C05'
LEVEL = 'exploration'
EXHAUSTIVE = False
RULE = ('Histories of response datagrams (rendered by the independent encoder over a vocabulary of 5 owner names x 2 spellings, '
        'A/AAAA/PTR/SRV/TXT/NSEC with 2-3 rdata variants, TTL in {0,1,2,120,1124,1125,4500}, flush bit, in-datagram repeats, '
        're-cased names; records chosen preferentially among identities the model currently holds) and clock steps around the 1 s '
        'flush window, TTL expiry and the 10 s purge, injected into one real instance in the simulator. After every op all lookup '
        'paths (entries_with_name, async_entries_with_name keys and values, get_all_by_details, async_all_by_details, '
        'get_by_details, get, async_get_unique, entries_with_server, async_entries_with_server, names) must return the model\'s '
        'records with the model\'s created/ttl; purges reported by the engine must equal the model\'s purge set. Exhaustive block: '
        'every history of depth <= DEPTH over a 20-symbol alphabet (14 datagrams, 6 clock steps). Non-trivial = history with a '
        'refresh of a cached identity and a later purge, or a flush that marks >= 1 entry, or an in-datagram repeat.')
ASSUMPTIONS = [
    'a datagram that lists one record identity with both a zero and a non-zero TTL is outside the claim (dropped, counted)',
    'CacheModel (vlib/cachehist.py) states RFC 6762 s10 as properties C05/C06 word it',
    'exhaustive block covers only the stated alphabet and depth',
]
BUDGET = {'quick': {'examples': 3000}, 'thorough': {'examples': 25000, 'shards': 16}}
DEPTH = {'quick': 3, 'thorough': 4}

TICKS = [0, 1, 999, 1000, 1001, 1999, 2001, 9999, 10000, 10001, 119999, 120001, 1125000]
TTLS = [0, 1, 2, 120, 1124, 1125, 4500]

rec_st = st.fixed_dictionaries({
    'pick': st.integers(0, 40), 'from': st.sampled_from(['any', 'cached', 'cached']), 'var': st.integers(0, 2),
    'ttl': st.sampled_from(TTLS), 'flush': st.booleans(), 'sp': st.integers(0, 3)})


@st.composite
def resp_op(draw):
    recs = draw(st.lists(rec_st, min_size=1, max_size=3))
    if draw(st.integers(0, 3)) == 0:
        dup = dict(recs[0])
        if draw(st.booleans()):
            dup['ttl'] = draw(st.sampled_from([1, 60, 120, 4500]))   # same identity, another non-zero TTL
            if recs[0]['ttl'] == 0:
                dup['ttl'] = 0
        dup['sp'] = draw(st.integers(0, 3))
        recs.append(dup)
    return ['resp', recs]


tick_op = st.one_of(st.sampled_from(TICKS), st.integers(0, 12000)).map(lambda ms: ['tick', ms])


@st.composite
def flush_triple(draw):
    """resp(X variant a) ; tick around the 1 s window ; resp(X variant b, flush) - aimed at the flush boundary."""
    pick = draw(st.sampled_from([0, 1, 2, 4, 5, 7]))
    a = {'pick': pick, 'from': 'any', 'var': 0, 'ttl': draw(st.sampled_from([120, 4500, 2])), 'flush': draw(st.booleans()),
         'sp': draw(st.integers(0, 3))}
    b = {'pick': pick, 'from': 'any', 'var': 1, 'ttl': draw(st.sampled_from([120, 0, 1])), 'flush': True,
         'sp': draw(st.integers(0, 3))}
    gap = draw(st.sampled_from([0, 1, 998, 999, 1000, 1001, 1002, 1500, 5000]))
    ops = [['resp', [a]], ['tick', gap, 'exact'] if draw(st.booleans()) else ['tick', gap]]
    second = [b]
    if draw(st.integers(0, 2)) == 0:
        second.append(dict(a, ttl=draw(st.sampled_from([120, 0]))))   # refresh or withdraw the old one in the same datagram
    ops.append(['resp', second])
    return ops


@st.composite
def renumber(draw):
    """A host (or instance) announces two rrsets under one owner name, then announces both again with other rdata and the
    cache-flush bit, the two records adjacent in the datagram - how every responder lays out A+AAAA or SRV+TXT."""
    p1, p2 = draw(st.sampled_from([(0, 1), (1, 0), (4, 5), (5, 4), (4, 6), (5, 6), (0, 8), (1, 8)]))
    sp = draw(st.integers(0, 3))
    ttl = draw(st.sampled_from([120, 4500]))
    first = [{'pick': p, 'from': 'any', 'var': 0, 'ttl': ttl, 'flush': draw(st.booleans()), 'sp': sp} for p in (p1, p2)]
    second = [{'pick': p, 'from': 'any', 'var': 1, 'ttl': draw(st.sampled_from([120, 120, 0])), 'flush': True, 'sp': draw(st.integers(0, 3))}
              for p in (p1, p2)]
    if draw(st.integers(0, 3)) == 0:
        second.insert(draw(st.integers(0, 2)), draw(rec_st))
    gap = draw(st.sampled_from([1, 999, 1001, 1500, 5000, 5000]))
    return [['resp', first], ['tick', gap], ['resp', second]]


@st.composite
def history(draw, max_ops: int):
    chunks = draw(st.lists(st.one_of(resp_op().map(lambda o: [o]), resp_op().map(lambda o: [o]), tick_op.map(lambda o: [o]),
                                     flush_triple(), renumber()), min_size=1, max_size=max_ops // 2))
    return [op for ch_ in chunks for op in ch_][:max_ops]


def strategy(tier: str):
    return history(25 if tier == 'quick' else 60)


def _r(pick, var, ttl, flush, sp=0):
    return {'pick': pick, 'from': 'any', 'var': var, 'ttl': ttl, 'flush': flush, 'sp': sp}


ALPHABET: List[Any] = [
    ['resp', [_r(0, 0, 120, True)]],
    ['resp', [_r(0, 0, 0, False)]],
    ['resp', [_r(0, 1, 120, True, 1)]],
    ['resp', [_r(0, 0, 20, False), _r(0, 0, 20, False)]],
    ['resp', [_r(0, 0, 1, False)]],
    ['resp', [_r(3, 0, 2, False)]],
    ['resp', [_r(3, 0, 4500, False, 3)]],
    ['resp', [_r(3, 0, 0, False)]],
    ['resp', [_r(4, 0, 120, True)]],
    ['resp', [_r(4, 1, 120, True)]],
    ['resp', [_r(4, 0, 0, True)]],
    ['resp', [_r(5, 0, 4500, True), _r(5, 1, 4500, False)]],
    ['resp', [_r(0, 0, 120, False), _r(0, 1, 0, False)]],
    ['resp', [_r(6, 0, 120, True)]],
    ['tick', 1], ['tick', 999], ['tick', 1001], ['tick', 1999], ['tick', 10001], ['tick', 120001], ['tick', 1000, 'exact'],
]


def enumerate_cases(tier: str, shard: int, nshards: int) -> Iterator[List[Any]]:
    idx = 0
    for depth in range(1, DEPTH[tier] + 1):
        for combo in itertools.product(range(len(ALPHABET)), repeat=depth):
            if idx % nshards == shard:
                yield [ALPHABET[i] for i in combo]
            idx += 1


MY_TAGS = ('paths-', 'purge-')


def known_signature(case: Any, v: Violation):
    return None


def check(case: List[Any]) -> Dict[str, Any]:
    run = ch.Run(case, ch.N_TEMPLATES_C05, n_listeners=1, check_paths=True)
    run.execute()
    mine = [v for v in run.viol if v.tag.startswith(MY_TAGS)]
    if mine:
        raise mine[0]
    s = run.stats
    classes = [k for k in ('refresh', 'purged', 'flush_marked', 'repeat_in_dgram', 'goodbye_cached', 'boundary_flush',
                           'refresh_then_purge', 'exact_1000') if s.get(k)]
    nontrivial = bool(s['refresh_then_purge'] or s['flush_marked'] or s['repeat_in_dgram'])
    return {'nontrivial': nontrivial, 'classes': classes, 'max': {'ops': len(case), 'datagrams': s['datagrams']},
            'sample': {'history': case, 'stats': s}}
