"""C19 - Service names are validated per RFC 6763 and TXT properties round-trip."""
from __future__ import annotations

from typing import Any, Dict, List, Optional

from hypothesis import strategies as st

from vlib import gen
from vlib.core import Violation
from vlib.models import ACCEPT, REJECT, UNSPECIFIED, name_verdict, txt_parse

ID = 'C19'
LEVEL = 'exploration'
RULE = ('Names: a grammar builds a valid name of one of the three documented forms and applies 0..3 rule violations from a '
        'catalogue (underscore dropped, illegal/non-ASCII/control/newline characters, hyphen placement, digits only, 15/16-char and '
        'empty service labels, wrong protocol, missing local./trailing dot, 63/64-byte and control-character instances, total '
        'length 256/257, empty subtype, leading dot), for both strict modes, plus random text; the verdict comes from an '
        'independent three-valued NameSpec (ACCEPT(type)/REJECT/UNSPECIFIED). TXT: dictionaries of 0..20 items with str/bytes '
        'keys, None/empty/str/bytes/int values, item sizes pushed to 254/255 bytes; the TXT bytes are parsed by an independent RFC '
        '6763 s6 parser and by a second ServiceInfo. Non-trivial = name case with >= 1 violation applied or a valid name with a '
        'non-ASCII/dotted instance; dictionary with >= 2 items one of which has a None/empty value or is a 255-byte item.')
ASSUMPTIONS = [
    'NameSpec (vlib/models.py) is written from the function docstring and the C19 statement; empty labels inside an instance, '
    'dotted subtypes and suffixes that match only case-insensitively are UNSPECIFIED (no obligation beyond "no foreign exception")',
    'TXT keys contain no "=" and are unique case-insensitively after encoding - except that a key may be given both as str and as bytes (same bytes): then the first occurrence counts for every reader; each item fits 255 bytes (RFC 6763 s6)',
]
BUDGET = {'quick': {'examples': 8000}, 'thorough': {'examples': 120000, 'shards': 16}}

SERVICE_ALPHA = 'abcdefghijklmnopqrstuvwxyzABCXYZ0123456789'
INSTANCE_ALPHA = gen.LABEL_ALPHABET + '..()!@'
VIOLATIONS = ['drop_underscore', 'ins_char', 'lead_hyphen', 'trail_hyphen', 'double_hyphen', 'digits_only', 'len16', 'len15',
              'len1', 'empty_body', 'bad_proto', 'no_local', 'no_trailing_dot', 'inst64', 'inst63', 'inst_ctrl', 'pad256',
              'pad257', 'empty_sub', 'leading_dot', 'underscore_in_body', 'trail_newline', 'upper_suffix', 'empty_label_in_instance',
              'long_service', 'newline_after_name']


@st.composite
def name_case(draw) -> Dict[str, Any]:
    strict = draw(st.booleans())
    n = draw(st.integers(1, 15))
    body = draw(st.text(alphabet=SERVICE_ALPHA, min_size=n, max_size=n))
    if not any(c.isalpha() for c in body):
        body = 'a' + body[1:]
    if n >= 3 and draw(st.booleans()):
        body = body[0] + '-' + body[2:]
    proto = draw(st.sampled_from(['_tcp', '_udp']))
    form = draw(st.sampled_from(['type', 'instance', 'instance', 'sub']))
    inst: Optional[str] = None
    if form != 'type':
        k = draw(st.integers(1, 24))
        inst = gen.fit_bytes(draw(st.text(alphabet=INSTANCE_ALPHA, min_size=0, max_size=k)), k)
        if inst.startswith('.') or inst.endswith('.') or '..' in inst:
            inst = inst.replace('.', '-') or 'i'
    viol = draw(st.lists(st.sampled_from(VIOLATIONS), max_size=3)) if draw(st.integers(0, 3)) else []
    underscore, suffix, dot, lead = '_', 'local', '.', ''
    for v in viol:
        if v == 'drop_underscore':
            underscore = ''
        elif v == 'ins_char':
            pos = draw(st.integers(0, len(body)))
            body = body[:pos] + draw(st.sampled_from(['_', ' ', '\n', '\x00', 'é', '=', '.', '\x7f', '日'])) + body[pos:]
        elif v == 'lead_hyphen':
            body = '-' + body
        elif v == 'trail_hyphen':
            body = body + '-'
        elif v == 'double_hyphen':
            pos = draw(st.integers(0, len(body)))
            body = body[:pos] + '--' + body[pos:]
        elif v == 'digits_only':
            body = ''.join(c if c.isdigit() else '7' for c in body)
        elif v == 'len16':
            body = (body + 'abcdefghijklmnop')[:16]
        elif v == 'len15':
            body = (body + 'abcdefghijklmnop')[:15]
        elif v == 'long_service':
            body = (body + 'abcdefghijklmnopqrstuvwxyz' * 2)[: draw(st.sampled_from([17, 30, 63]))]
        elif v == 'len1':
            body = body[:1]
        elif v == 'empty_body':
            body = ''
        elif v == 'bad_proto':
            proto = draw(st.sampled_from(['_tcpx', '_TCP', 'tcp', '_sctp', '']))
        elif v == 'no_local':
            suffix = draw(st.sampled_from(['locals', 'LOCAL', 'com', '']))
        elif v == 'no_trailing_dot':
            dot = ''
        elif v == 'inst64':
            inst = gen.fit_bytes(inst or 'é', 64)
            form = 'instance' if form == 'type' else form
        elif v == 'inst63':
            inst = gen.fit_bytes(inst or 'é', 63)
            form = 'instance' if form == 'type' else form
        elif v == 'inst_ctrl':
            inst = (inst or 'i') + draw(st.sampled_from(['\x00', '\x1f', '\x7f', '\n', '\t']))
            form = 'instance' if form == 'type' else form
        elif v == 'empty_sub':
            form, inst = 'sub', ''
        elif v == 'leading_dot':
            lead = '.'
        elif v == 'underscore_in_body':
            body = body[:1] + '_' + body[1:]
        elif v == 'trail_newline':
            body = body + '\n'
        elif v == 'upper_suffix':
            suffix = 'Local'
        elif v == 'empty_label_in_instance':
            inst = (inst or 'i') + '..x'
            form = 'instance' if form == 'type' else form
    def assemble(b: str) -> str:
        parts = []
        if form == 'instance':
            parts.append(inst if inst is not None else 'i')
        elif form == 'sub':
            parts += [inst if inst is not None else 's', '_sub']
        parts.append(underscore + b)
        if proto:
            parts.append(proto)
        return lead + '.'.join(parts) + ('.' + suffix if suffix else '') + dot

    s = assemble(body)
    for v in viol:
        if v in ('pad256', 'pad257'):
            # only the (non-strict) service label may be arbitrarily long: grow it to hit the total exactly
            want = 256 if v == 'pad256' else 257
            if len(s) < want:
                s = assemble(body + 'a' * (want - len(s)))
    if 'newline_after_name' in viol:
        s = s + draw(st.sampled_from(['\n', '\n', '\r\n', ' ']))      # something behind the final dot (a line read from a file)
    return {'kind': 'name', 's': s, 'strict': strict, 'viol': viol}


@st.composite
def bare_local_case(draw) -> Dict[str, Any]:
    """The bare '<something>.local.' form (accepted in non-strict mode only): nothing, an instance label, or <sub>._sub in front of
    'local.', with the label empty, short, or around the 63-byte limit."""
    k = draw(st.sampled_from([0, 1, 5, 24, 58, 59, 62, 63, 64]))
    label = gen.fit_bytes(draw(st.text(alphabet=INSTANCE_ALPHA, min_size=0, max_size=max(k, 1))), k) if k else ''
    if label.startswith('.') or label.endswith('.') or '..' in label:
        label = label.replace('.', '-')
    shape = draw(st.sampled_from(['inst', 'sub', 'sub', 'sub-only', 'empty-sub', 'dot-x-sub', 'nothing', 'ctrl-sub']))
    if shape == 'inst':
        head = label + '.' if label else ''
    elif shape == 'sub':
        head = label + '._sub.'
    elif shape == 'sub-only':
        head = '_sub.'
    elif shape == 'empty-sub':
        head = '._sub.'
    elif shape == 'dot-x-sub':
        head = '.x._sub.'
    elif shape == 'ctrl-sub':
        head = (label or 's') + draw(st.sampled_from(['\x00', '\x1f', '\x7f'])) + '._sub.'
    else:
        head = ''
    return {'kind': 'name', 's': head + 'local.', 'strict': draw(st.sampled_from([False, False, False, True])), 'viol': ['bare-local-' + shape]}


@st.composite
def random_name_case(draw) -> Dict[str, Any]:
    s = draw(st.text(alphabet=st.one_of(st.sampled_from(list('._-_aZ9 \n')), st.characters(max_codepoint=0x2FF)),
                     max_size=draw(st.sampled_from([10, 40, 300]))))
    s += draw(st.sampled_from(['', '.local.', '._tcp.local.', '._udp.local.', '_http._tcp.local.', '._a._tcp.local.']))
    if draw(st.integers(0, 5)) == 0:
        # a Python string may hold a lone surrogate, which has no UTF-8 form: still only BadTypeInNameException may come out
        pos = draw(st.integers(0, len(s)))
        s = s[:pos] + draw(st.sampled_from(['\ud800', '\udcff', 'x\udfff'])) + s[pos:]
    return {'kind': 'name', 's': s[-300:], 'strict': draw(st.booleans()), 'viol': ['random']}


@st.composite
def txt_case(draw) -> Dict[str, Any]:
    n = draw(st.integers(0, 20)) if draw(st.integers(0, 3)) else draw(st.integers(0, 4))
    items: List[List[Any]] = []
    seen = set()
    key_byte = st.integers(0, 255).filter(lambda b: b != 0x3D)
    for i in range(n):
        mode = draw(st.sampled_from(['small', 'small', 'small', 'limit254', 'limit255']))
        ktype = draw(st.sampled_from(['str', 'bytes']))
        if ktype == 'str':
            key = draw(st.text(alphabet=gen.LABEL_ALPHABET.replace('=', ''), min_size=1, max_size=9))
            kb = key.encode('utf-8')
        else:
            kb = bytes(draw(st.lists(key_byte, min_size=1, max_size=9)))
            key = kb.hex()
        while kb.lower() in seen:           # keys are distinct as encoded bytes (a str key and a bytes key may not collide either)
            kb = kb + b'%d' % i
            key = key + '%d' % i if ktype == 'str' else kb.hex()
        seen.add(kb.lower())
        vtype = draw(st.sampled_from(['none', 'empty_bytes', 'empty_str', 'str', 'bytes', 'bytes', 'int', 'bool']))
        if vtype == 'none':
            val: Any = None
            vb = None
        elif vtype == 'empty_bytes':
            val, vb = '', b''
        elif vtype == 'empty_str':
            val, vb = '', b''
        elif vtype == 'str':
            val = draw(st.text(alphabet=gen.LABEL_ALPHABET + '=', max_size=12))
            vb = val.encode('utf-8')
        elif vtype == 'bytes':
            vb = draw(st.binary(max_size=12))
            val = vb.hex()
        elif vtype == 'int':
            val = draw(st.integers(-5, 70000))
            vb = str(val).encode()
        else:
            val = draw(st.booleans())
            vb = str(val).encode()
        if mode != 'small' and vtype in ('str', 'bytes', 'empty_bytes', 'empty_str'):
            # push the item (key '=' value) to 254/255 bytes
            want = 254 if mode == 'limit254' else 255
            pad = want - len(kb) - 1 - len(vb)
            if pad > 0:
                if vtype in ('str', 'empty_str'):
                    val = (val or '') + 'v' * pad
                    vb = val.encode('utf-8')
                    vtype = 'str'
                else:
                    vb = (vb or b'') + b'\xfe' * pad
                    val = vb.hex()
                    vtype = 'bytes'
        if mode != 'small' and vtype == 'none':
            # a key without a value has no '=': the key itself may be as long as the item limit (254 or 255 bytes)
            want = 254 if mode == 'limit254' else 255
            pad = want - len(kb)
            if pad > 0:
                kb = kb + b'k' * pad
                key = key + 'k' * pad if ktype == 'str' else kb.hex()
                seen.add(kb.lower())
        items.append([ktype, key, vtype, val])
        if len(kb) < 200 and draw(st.integers(0, 7)) == 0:
            # the same key once more in the other Python spelling ('k' and b'k' are two dictionary keys but one TXT key): both items
            # are encoded, and every reader of those bytes - the library included - keeps the first (RFC 6763 s6.4)
            try:
                twin_key = [['bytes', kb.hex()] if ktype == 'str' else ['str', kb.decode('utf-8')]][0]
            except UnicodeDecodeError:
                twin_key = None
            if twin_key is not None and (twin_key[0] == 'bytes' or twin_key[1].encode('utf-8') == kb):
                items.append(twin_key + [draw(st.sampled_from([['str', 'twin'], ['none', None], ['bytes', b'tw'.hex()], ['empty_str', '']]))][0])
    return {'kind': 'txt', 'items': items}



def FLAKY_IS_VIOLATION(case: Any) -> bool:
    """This check is a pure function of the case (no clock, no threads, no randomness outside the case): when a violation is
    observed and the very same case passes on Hypothesis' re-run, the library has carried state from an earlier case into
    this one (a process-wide memo, a shared container) - on a correct tree the objects of one case cannot affect the next.
    What was seen stands."""
    return True


def strategy(tier: str):
    return st.one_of(name_case(), name_case(), name_case(), random_name_case(), bare_local_case(), txt_case(), txt_case())


def _txt_input(items: List[List[Any]]):
    d: Dict[Any, Any] = {}
    norm: List[Any] = []
    for ktype, key, vtype, val in items:
        k = key if ktype == 'str' else bytes.fromhex(key)
        kb = key.encode('utf-8') if ktype == 'str' else k
        if vtype == 'none':
            v, vb = None, None
        elif vtype == 'empty_bytes':
            v, vb = b'', b''
        elif vtype == 'empty_str':
            v, vb = '', b''
        elif vtype == 'str':
            v, vb = val, val.encode('utf-8')
        elif vtype == 'bytes':
            v = vb = bytes.fromhex(val)
        else:
            v, vb = val, str(val).encode('utf-8')
        d[k] = v
        norm.append((kb, vb))
    return d, norm


def check(case: Dict[str, Any]) -> Dict[str, Any]:
    if case['kind'] == 'name':
        return check_name(case)
    return check_txt(case)


def check_name(case: Dict[str, Any]) -> Dict[str, Any]:
    from zeroconf import BadTypeInNameException
    from zeroconf._utils.name import service_type_name

    s, strict = case['s'], case['strict']
    if any(0xD800 <= ord(ch) <= 0xDFFF for ch in s):
        # no UTF-8 form, so the byte-length rules have nothing to measure: accept/reject is left open, the exception type is not
        verdict, expected, reason = UNSPECIFIED, None, 'lone surrogate'
    else:
        verdict, expected, reason = name_verdict(s, strict)
    service_type_name.cache_clear()
    det = {'name': s, 'strict': strict, 'spec': verdict, 'reason': reason}
    try:
        got = service_type_name(s, strict=strict)
        raised = None
    except BadTypeInNameException:
        got, raised = None, 'BadTypeInNameException'
    except Exception as e:  # noqa
        raise Violation(f'validator raised {type(e).__name__} instead of BadTypeInNameException', det,
                        tag='foreign-exception-' + type(e).__name__)
    if verdict == ACCEPT:
        if raised:
            raise Violation(f'valid name rejected ({reason})', det, tag='rejects-valid')
        if expected is not None and got != expected:
            raise Violation(f'returned {got!r}, expected the service type {expected!r}', det, tag='wrong-type')
        if expected is None and not (isinstance(got, str) and got.endswith('local.')):
            raise Violation(f'returned {got!r} for a bare .local. name', det, tag='wrong-type')
    elif verdict == REJECT:
        if not raised:
            raise Violation(f'invalid name accepted: {reason}', det, tag='accepts-invalid:' + reason)
    classes = ['name-' + verdict, 'strict' if strict else 'non-strict']
    viol = case.get('viol') or []
    classes += ['viol-' + v for v in viol[:1]]
    fancy = any(ord(c) > 127 for c in s) or s.count('.') > 4
    return {'nontrivial': bool(viol) or (verdict == ACCEPT and fancy), 'classes': classes,
            'sample': {'case': case, 'verdict': verdict}}


def check_txt(case: Dict[str, Any]) -> Dict[str, Any]:
    from zeroconf import ServiceInfo

    d, norm = _txt_input(case['items'])
    det: Dict[str, Any] = {'items': case['items']}
    try:
        info = ServiceInfo('_http._tcp.local.', 'x._http._tcp.local.', 80, properties=d)
        text = info.text
    except Exception as e:  # noqa
        raise Violation(f'ServiceInfo raised {type(e).__name__} on a valid properties dictionary', det, tag='txt-raised')
    det['text'] = text
    try:
        parsed = txt_parse(text)
    except ValueError as e:
        raise Violation(f'TXT bytes are not well-formed: {e}', det, tag='txt-malformed')
    if parsed != norm:
        raise Violation('independent RFC 6763 parser recovers different items', {'expected': norm[:4], 'got': parsed[:4]},
                        tag='txt-independent')
    want_read: Dict[bytes, Any] = {}
    for k, v in norm:
        want_read.setdefault(k, v or None)        # a repeated key: the first occurrence counts
    second = ServiceInfo('_http._tcp.local.', 'x._http._tcp.local.', 80, properties=text)
    try:
        got2 = second.properties
    except Exception as e:  # noqa
        raise Violation(f'decoding TXT bytes raised {type(e).__name__}', det, tag='txt-decode-raised')
    if got2 != want_read or list(got2) != list(want_read):
        raise Violation('library decode of its own TXT bytes differs from the input', {'expected': want_read, 'got': got2},
                        tag='txt-library')
    got1: Dict[bytes, Any] = {}
    for k, v in info.properties.items():
        if not isinstance(k, bytes) or not (v is None or isinstance(v, bytes)):
            raise Violation('.properties of the constructed object holds a key or value that is not bytes (values: bytes or None)',
                            {'key': repr(k), 'value': repr(v)[:60]}, tag='txt-first-object-types')
        got1.setdefault(k.encode('utf-8') if isinstance(k, str) else k,
                        ((v if isinstance(v, bytes) else str(v).encode('utf-8')) or None) if v is not None else None)
    if got1 != want_read:
        raise Violation('.properties of the constructed object differs from the input', {'expected': want_read, 'got': got1},
                        tag='txt-first-object')
    # the application edits the dictionaries it was handed (adds an annotation, drops a key): they are its own; objects made
    # afterwards from the same TXT bytes / the same items read back the input, not the edits
    for handed in (got2, info.properties):
        handed[b'__seen_by_app'] = b'1'
        for k in list(handed)[:1]:
            handed.pop(k)
    d_again, _ = _txt_input(case['items'])
    for what, later in (('the same TXT bytes', ServiceInfo('_http._tcp.local.', 'y._http._tcp.local.', 80, properties=text)),
                        ('the same items', ServiceInfo('_http._tcp.local.', 'z._http._tcp.local.', 80, properties=d_again))):
        got3 = {(k.encode('utf-8') if isinstance(k, str) else k): ((v if isinstance(v, bytes) else str(v).encode('utf-8')) or None) if v is not None else None
                for k, v in later.properties.items()}
        if got3 != want_read or txt_parse(later.text) != norm:
            raise Violation(f'a ServiceInfo made from {what} after the application had edited the .properties dictionaries of earlier '
                            'objects does not read back the input', {'expected': want_read, 'got': got3}, tag='txt-shared-dictionary')
    n = len(norm)
    special = any(v is None or v == b'' for _, v in norm) or any(len(k) + 1 + len(v or b'') >= 254 for k, v in norm)
    classes = ['txt', 'txt-items-%s' % ('0' if n == 0 else '1' if n == 1 else '2+')]
    if any(len(k) + (1 + len(v) if v is not None else 0) == 255 for k, v in norm):
        classes.append('txt-255-byte-item')
    if any(v is None for _, v in norm):
        classes.append('txt-none-value')
    if any(v == b'' for _, v in norm):
        classes.append('txt-empty-value')
    if len(want_read) < len(norm):
        classes.append('txt-key-given-as-str-and-as-bytes')
    return {'nontrivial': n >= 2 and special, 'classes': classes, 'sample': {'case': case, 'text_len': len(text)}}
