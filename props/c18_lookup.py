"""C18 - Service-info lookup: bounded, cache-first, never from expired data."""
from __future__ import annotations

import asyncio
import ipaddress
from typing import Any, Dict, List, Optional, Set, Tuple

from hypothesis import strategies as st

from vlib import responder as rp, sim, wire
from vlib.core import Violation

ID = 'C18'
LEVEL = 'exploration'
RULE = ('One instance whose cache is built by injected responses: each of SRV, TXT, A (0-3 addresses) and AAAA (0-2) of an instance '
        'and its host is absent, fresh, stale (> half TTL) or expired-but-unpurged (TTL 1-2 s, clock advanced past expiry but short '
        'of the next 10 s purge); at most one SRV identity. Then AsyncServiceInfo(type, name[, server]).async_request(zc, timeout in '
        '{200,500,1000,3000,10000} ms, question type default/QU/QM) runs while missing records arrive at offsets relative to the '
        'start, the lookup\'s query instants and the deadline (-1, 0, +1 ms included). Oracle from the harness\' own log of what it '
        'injected and when: returns by start+timeout; True => server/port/priority/weight/text/addresses come from records unexpired '
        'at some instant inside [start, return] and there is at least one address; False => at no instant before the return were an '
        'unexpired SRV (or the given server) and an unexpired address of its target both available (ordering at one instant by '
        'sequence number); cache sufficient at start => returns True at once, transmits nothing, lists all unexpired addresses; first '
        'query QU then QM unless forced; a query omits the SRV/TXT question when a fresh answer is held and contains every question '
        'whose answer is not held unexpired (unless the lookup itself asked it by QM within the last 999 ms). Non-trivial = an expired-but-unpurged record of a kind that is otherwise missing, or a '
        'record arriving within 5 ms of the deadline.')
ASSUMPTIONS = [
    'no cache-flush bits on injected records (flush handling is C06\'s subject); one SRV identity per instance',
    'availability of a record = [arrival, arrival + ttl) as logged by the harness, ended early by the arrival of the next copy of the same record (which resets the lifetime, as the cache does)',
]
BUDGET = {'quick': {'examples': 6000}, 'thorough': {'examples': 40000, 'shards': 16}}
EPS = 2.0
TYPE = '_http._tcp.local.'
NAME = 'dev.' + TYPE
HOSTS = ['devhost.local.', 'otherhost.local.', NAME]      # the SRV target may be the instance name itself (no separate host name)
A4 = ['10.1.0.1', '10.1.0.2', '10.1.0.3']
A6 = ['fe80::11', 'fe80::12']
PEER = ('10.0.0.9', 5353)
STATES = ['absent', 'fresh', 'fresh', 'stale', 'expired']


@st.composite
def scenario(draw) -> Dict[str, Any]:
    timeout = draw(st.sampled_from([200, 500, 1000, 3000, 10000]))
    pre = {
        'srv': draw(st.sampled_from(STATES)), 'srv_host': draw(st.sampled_from([0, 0, 1, 2])),
        'txt': draw(st.sampled_from(STATES)),
        'a': [draw(st.sampled_from(STATES)) for _ in range(draw(st.integers(0, 3)))],
        'aaaa': [draw(st.sampled_from(STATES)) for _ in range(draw(st.integers(0, 2)))],
        'a_host': draw(st.sampled_from([0, 0, 0, 1, 2])),
    }
    arrivals = []
    for _ in range(draw(st.integers(0, 4))):
        off = draw(st.one_of(st.sampled_from([0, 1, 100, 199, 200, 201, 219, 220, 221, 440, timeout - 5, timeout - 1, timeout, timeout + 1,
                                              timeout + 50]), st.integers(0, timeout + 100)))
        arrivals.append({'off': max(0, off), 'what': draw(st.sampled_from(['srv', 'txt', 'a', 'aaaa', 'srv+a', 'all', 'a-other-host'])),
                         'ttl': draw(st.sampled_from([120, 120, 1, 0])), 'idx': draw(st.integers(0, 2)),
                         # order of the records inside the datagram: SRV, TXT, A, AAAA or the reverse (address records first)
                         'rev': draw(st.booleans())})
    return {'jitter': draw(st.integers(0, 10**6)), 'timeout': timeout, 'pre': pre, 'arrivals': arrivals,
            'given_server': draw(st.sampled_from([None, None, None, 0, 1])), 'qtype': draw(st.sampled_from([None, None, 'QU', 'QM'])),
            'scoped_twin': draw(st.sampled_from([False, False, False, True]))}


def strategy(tier: str):
    return scenario()


def known_signature(case: Any, v: Violation):
    return None


def rr_srv(host_i: int, ttl: int) -> Dict[str, Any]:
    return rp.wire_rr_of_ident(('SRV', NAME, 3, 7, 8080, HOSTS[host_i]), ttl)


def rr_txt(ttl: int) -> Dict[str, Any]:
    return rp.wire_rr_of_ident(('TXT', NAME, '0361623d'), ttl)


def rr_addr(host_i: int, addr: str, ttl: int) -> Dict[str, Any]:
    b = ipaddress.ip_address(addr).packed
    return rp.wire_rr_of_ident(('A' if len(b) == 4 else 'AAAA', HOSTS[host_i], b.hex()), ttl)


def _scoped_text(packed: bytes, scope: Any) -> str:
    """how an address reads with its scope (link-local IPv6 only), written from the packed bytes by the harness"""
    import ipaddress

    a = ipaddress.ip_address(packed)
    if a.version == 6 and a.is_link_local and scope:
        return f'{a.compressed}%{scope}'
    return a.compressed


class Exec:
    def __init__(self, case: Dict[str, Any]) -> None:
        self.case = case
        self.log: List[Dict[str, Any]] = []     # injected records: {'g','t','ident','ttl'}
        self.result: Any = None
        self.exc: Optional[BaseException] = None

    def _inject(self, w: sim.World, host: sim.Host, rrs: List[Dict[str, Any]], msg_id: int) -> None:
        if not rrs:
            return
        data = wire.encode({'id': msg_id, 'flags': 0x8400, 'qd': [], 'an': rrs, 'ns': [], 'ar': []})
        w.gseq += 1
        now = w.now_ms
        for r in rrs:
            self.log.append({'g': w.gseq, 't': now, 'ident': rp.ident_of_wire_rr(r), 'ttl': r['ttl']})
        w.net.inject(host, data, PEER)

    async def main(self, w: sim.World) -> None:
        from zeroconf import DNSQuestionType
        from zeroconf.asyncio import AsyncServiceInfo

        case = self.case
        host = w.add_host('H')
        zc = host.zc
        await zc.async_wait_for_start()
        await asyncio.sleep(0.5)
        pre = case['pre']
        msg = [1]

        def nid() -> int:
            msg[0] += 1
            return msg[0]

        # expired-but-unpurged: TTL 1-2 s, injected ~3 s before the start; the start is placed right after a purge
        # so no purge happens between expiry and the lookup (steering only; the oracle uses the harness' own log)
        nxt = zc.engine._cleanup_timer.when() if zc.engine._cleanup_timer is not None else w.clock.t + 10
        if nxt - w.clock.t > 0:
            await asyncio.sleep(nxt - w.clock.t + 0.2)
        t_plan = w.clock.t        # just after a purge: next purge in ~9.8 s
        groups: Dict[str, List[Dict[str, Any]]] = {'stale': [], 'expired': [], 'fresh': []}

        def add(state: str, maker) -> None:
            if state == 'absent':
                return
            if state == 'expired':
                groups['expired'].append(maker(2))
            elif state == 'stale':
                groups['stale'].append(maker(8))       # injected 5 s before the start: more than half of 8 s gone
            else:
                groups['fresh'].append(maker(120))

        add(pre['srv'], lambda ttl: rr_srv(pre['srv_host'], ttl))
        add(pre['txt'], rr_txt)
        for i, stt in enumerate(pre['a']):
            add(stt, lambda ttl, i=i: rr_addr(pre['a_host'], A4[i], ttl))
        for i, stt in enumerate(pre['aaaa']):
            add(stt, lambda ttl, i=i: rr_addr(pre['a_host'], A6[i], ttl))
        self._inject(w, host, groups['stale'], nid())
        await asyncio.sleep(2.0)
        self._inject(w, host, groups['expired'], nid())
        await asyncio.sleep(3.0)                       # the TTL-2 records expired 1 s ago, stale ones are 5 of 8 s old
        self._inject(w, host, groups['fresh'], nid())
        if case.get('scoped_twin') and pre['srv'] == 'fresh':
            # the same link-local address of the SRV target heard on the IPv4 socket (no scope) and on the IPv6 socket (its scope):
            # two address records of the host, both have to be loaded
            twin_rr = rr_addr(pre['srv_host'], 'fe80::beef', 120)
            twin = wire.encode({'id': nid(), 'flags': 0x8400, 'qd': [], 'an': [twin_rr], 'ns': [], 'ar': []})
            w.gseq += 1
            self.log.append({'g': w.gseq, 't': w.now_ms, 'ident': rp.ident_of_wire_rr(twin_rr), 'ttl': 120})
            w.net.inject(host, twin, PEER)
            # (the way a dual-stack socket reports an IPv6 source: a 4-tuple whose last element is the interface's scope id)
            # (other message id: byte-identical datagrams within a second are dropped as duplicates)
            twin2 = wire.encode({'id': nid(), 'flags': 0x8400, 'qd': [], 'an': [twin_rr], 'ns': [], 'ar': []})
            host.endpoints[0].proto.datagram_received(twin2, ('fe80::9', 5353, 0, 3))
        await asyncio.sleep(0.01)
        # ---- the lookup --------------------------------------------------------------------------------
        qt = {None: None, 'QU': DNSQuestionType.QU, 'QM': DNSQuestionType.QM}[case['qtype']]
        gs = case['given_server']
        info = AsyncServiceInfo(TYPE, NAME, server=HOSTS[gs]) if gs is not None else AsyncServiceInfo(TYPE, NAME)
        self.info = info
        w.gseq += 1
        self.g_start, self.t_start = w.gseq, w.now_ms
        self.cache_at_start = [(rp_ident, r.created, r.ttl) for store in zc.cache.cache.values() for r in store
                               for rp_ident in [_ident(r)] if rp_ident is not None]
        self.n_trace_start = len(w.net.trace)
        self.scoped_at_start: Dict[str, set] = {}
        for store in zc.cache.cache.values():
            for r in store:
                if type(r).__name__ == 'DNSAddress' and not r.is_expired(self.t_start):
                    self.scoped_at_start.setdefault(r.name.lower(), set()).add(_scoped_text(r.address, r.scope_id))
        for a in sorted(case['arrivals'], key=lambda x: x['off']):
            w.loop.call_at(w.clock.t + a['off'] / 1000.0, self._arrival, w, host, a, nid())
        try:
            self.result = await info.async_request(zc, case['timeout'], qt)
        except BaseException as e:  # noqa
            self.exc = e
        w.gseq += 1
        self.g_ret, self.t_ret = w.gseq, w.now_ms
        self.fields = {'server': info.server, 'port': info.port, 'priority': info.priority, 'weight': info.weight,
                       'text': info.text, 'addrs': [a.packed.hex() for a in info.ip_addresses_by_version(_ALL())]}
        self.scoped_got = set(info.parsed_scoped_addresses())
        await asyncio.sleep(case['timeout'] / 1000.0 + 0.3)

    def _arrival(self, w: sim.World, host: sim.Host, a: Dict[str, Any], mid: int) -> None:
        what, ttl, idx = a['what'], a['ttl'], a['idx']
        pre = self.case['pre']
        rrs = []
        if what in ('srv', 'srv+a', 'all'):
            rrs.append(rr_srv(pre['srv_host'], ttl))
        if what in ('txt', 'all'):
            rrs.append(rr_txt(ttl))
        if what in ('a', 'srv+a', 'all'):
            rrs.append(rr_addr(pre['srv_host'], A4[idx % 3], ttl))
        if what in ('aaaa', 'all'):
            rrs.append(rr_addr(pre['srv_host'], A6[idx % 2], ttl))
        if what == 'a-other-host':
            rrs.append(rr_addr((pre['srv_host'] + 1) % 3, A4[idx % 3], ttl))
        if a.get('rev'):
            rrs.reverse()
        self._inject(w, host, rrs, mid)


def _ALL():
    from zeroconf import IPVersion

    return IPVersion.All


def _ident(r: Any):
    from vlib.respsim import ident_of_lib_record

    return ident_of_lib_record(r)


def check(case: Dict[str, Any]) -> Dict[str, Any]:
    ex = Exec(case)
    with sim.World(jitter_seed=case['jitter']) as w:
        w.run(ex.main(w))
        trace = [e for e in w.net.trace[ex.n_trace_start:] if e['host'] == 'H' and e['g'] < ex.g_ret + 10**9]
        errors = list(w.errors)
    if errors:
        raise Violation('exception reached the event loop: ' + str(errors[0].get('exception')), errors[:2], tag='loop-exception')
    if ex.exc is not None:
        raise Violation(f'async_request raised {type(ex.exc).__name__}', {'exc': repr(ex.exc)}, tag='raised')
    t0, t1 = ex.t_start, ex.t_ret
    rel = lambda ms: round(ms - t0, 3)
    timeout = case['timeout']
    f = ex.fields
    det: Dict[str, Any] = {'result': ex.result, 'returned_at': rel(t1), 'timeout': timeout, 'fields': {k: (v.hex() if isinstance(v, bytes) else v)
                                                                                                  for k, v in f.items()},
                           'injected': [(rel(l['t']), str(l['ident'][:2]), l['ttl']) for l in ex.log][-14:]}
    # (1) bounded
    if t1 > t0 + timeout + EPS:
        raise Violation('lookup returned later than its timeout', det, tag='late-return')
    # availability intervals from the harness' log: (ident, arrival g, arrival t, expiry t); TTL 0 withdraws
    avail: List[Tuple[Tuple, int, float, float]] = []
    for l in ex.log:
        # the cache holds one entry per record identity and every further copy resets its lifetime (also to a shorter one); a
        # goodbye ends it: earlier versions of the same identity end at the arrival of the next copy
        avail = [(i, g, a, min(e, l['t']) if i == l['ident'] else e) for i, g, a, e in avail]
        if l['ttl'] > 0:
            avail.append((l['ident'], l['g'], l['t'], l['t'] + 1000.0 * l['ttl']))
    avail_all = list(avail)
    in_window = [(i, g, a, e) for i, g, a, e in avail if g < ex.g_ret and e > t0]       # arrived before the return, unexpired at/after start
    srvs = [x for x in in_window if x[0][0] == 'SRV']
    gs = case['given_server']
    given = HOSTS[gs].lower() if gs is not None else None
    if ex.result:
        # (2) fields come from unexpired records inside the window
        if not f['addrs']:
            raise Violation('lookup succeeded without knowing any address', det, tag='true-without-address')
        server = (f['server'] or '').lower()
        if given is None or srvs:
            ok_srv = [x for x in srvs if x[0][5] == server and (x[0][2], x[0][3], x[0][4]) == (f['priority'], f['weight'], f['port'])]
            if not ok_srv and not (given is not None and server == given and f['port'] is None):
                raise Violation('host/port/priority/weight do not come from an SRV record of the instance that was unexpired '
                                'inside the lookup window', det, tag='srv-from-expired-or-foreign')
        for a_hex in f['addrs']:
            if not any(x[0][0] in ('A', 'AAAA') and x[0][1] == server and x[0][2] == a_hex for x in in_window):
                raise Violation('returned address does not come from an unexpired address record of the service host',
                                dict(det, address=a_hex), tag='address-from-expired-or-foreign')
        if f['text'] not in (b'', None) and not any(x[0][0] == 'TXT' and x[0][2] == f['text'].hex() for x in in_window):
            raise Violation('TXT does not come from an unexpired TXT record of the instance', det, tag='txt-from-expired')
    else:
        # (3) False => never were an unexpired SRV (or the given server) and an unexpired address of its target both available
        hosts_known: List[Tuple[str, float, float]] = [(x[0][5], max(x[2], t0), x[3]) for x in srvs]
        if given is not None:
            # the server passed to the constructor only stands until an SRV record of the instance is seen
            first_srv = min([max(x[2], t0) for x in srvs] + [1e18])
            if first_srv > t0:
                hosts_known.append((given, t0, first_srv))
        for h, a0, e0 in hosts_known:
            for x in in_window:
                if x[0][0] in ('A', 'AAAA') and x[0][1] == h:
                    lo, hi = max(a0, x[2], t0), min(e0, x[3])
                    if lo < hi and lo <= t1:
                        raise Violation('lookup failed although an unexpired SRV (or the given server) and an unexpired address '
                                        'record of its target were both available before it returned',
                                        dict(det, host=h, both_available=(rel(lo), rel(min(hi, t1)))), tag='false-despite-complete')
    # (4) cache sufficient at start
    start_ok_srv = [c for c in ex.cache_at_start if c[0][0] == 'SRV' and c[1] + 1000.0 * c[2] > t0]
    host0 = start_ok_srv[-1][0][5] if start_ok_srv else given
    start_addrs = {c[0][2] for c in ex.cache_at_start if c[0][0] in ('A', 'AAAA') and host0 is not None and c[0][1] == host0
                   and c[1] + 1000.0 * c[2] > t0}
    queries = [e for e in trace if e['g'] < ex.g_ret and (sim.decode_trace_entry(e) or {'flags': 0x8000})['flags'] & 0x8000 == 0]
    classes: List[str] = ['result-' + str(bool(ex.result))]
    if host0 is not None and start_addrs:
        classes.append('cache-sufficient-at-start')
        if not ex.result or t1 > t0 + EPS:
            raise Violation('cache already held an unexpired SRV (or server given) and address, yet the lookup did not return True at once',
                            dict(det, start_addresses=sorted(start_addrs)), tag='cache-first')
        if queries:
            raise Violation('lookup transmitted although the cache sufficed', det, tag='cache-first-sent')
        if set(f['addrs']) != start_addrs:
            raise Violation('lookup loaded from the cache does not list exactly the unexpired address records of the host',
                            dict(det, want=sorted(start_addrs)), tag='cache-first-addresses')
        want_scoped = ex.scoped_at_start.get((host0 or '').lower(), set())
        if case.get('scoped_twin') and want_scoped and ex.scoped_got != want_scoped:
            raise Violation('lookup loaded from the cache does not list every unexpired address record of the host (one link-local '
                            'address cached once per interface it was heard on)', dict(det, want=sorted(want_scoped), got=sorted(ex.scoped_got)),
                            tag='cache-first-scoped-addresses')
        if case.get('scoped_twin') and len(want_scoped) > len(start_addrs):
            classes.append('link-local-address-cached-under-two-scopes')
    elif queries:
        # (5) first query QU unless QM forced; later QM
        for k, e in enumerate(queries):
            m = sim.decode_trace_entry(e)
            qus = {bool(q['cls'] & 0x8000) for q in m['qd']}
            want = {k == 0 and case['qtype'] in (None, 'QU')}
            if qus and qus != want:
                raise Violation('question type progression wrong (first QU unless QM forced, then QM)',
                                dict(det, k=k, qu=sorted(qus)), tag='progression')
        classes.append('queries-sent')
        # (6) which questions are asked: a question whose answer is held fresh (SRV/TXT, less than half its TTL old) is omitted;
        # a question whose answer is not held at all (absent, withdrawn or expired - purged or not) is asked, unless this very
        # lookup asked it by QM during the previous 999 ms (duplicate-question suppression of its own question, C13)
        asked_qm: Dict[Tuple[str, int], float] = {}
        for k, e in enumerate(queries):
            m = sim.decode_trace_entry(e)
            tq = e['t'] * 1000.0
            qd = {(wire.name_text(q['name']).lower(), q['type']) for q in m['qd']}
            is_qm = not any(q['cls'] & 0x8000 for q in m['qd'])

            def spans(kind: str, owner: str, fresh: bool) -> List[Tuple[float, float]]:
                # per record identity the cache keeps one entry whose lifetime is set by the latest arrival: [arrival, expiry) - or
                # [arrival, half TTL) - from the last copy the harness injected before this query (TTL 0 withdraws)
                last: Dict[Tuple, Dict[str, Any]] = {}
                for l in ex.log:
                    if l['ident'][0] == kind and l['ident'][1] == owner and l['g'] < e['g']:
                        last[l['ident']] = l
                return [(l['t'], l['t'] + (500.0 if fresh else 1000.0) * l['ttl']) for l in last.values() if l['ttl'] > 0]

            def surely_fresh(kind: str, owner: str) -> bool:
                return any(a <= tq - EPS and tq + EPS < end for a, end in spans(kind, owner, True))

            def surely_not_held(kind: str, owner: str) -> bool:
                return not any(a <= tq + EPS and tq - EPS < end for a, end in spans(kind, owner, False))

            for kind, qtype in (('SRV', 33), ('TXT', 16)):
                key = (NAME.lower(), qtype)
                recently = key in asked_qm and tq - asked_qm[key] <= 999 + EPS
                if surely_fresh(kind, NAME.lower()) and key in qd:
                    raise Violation(f'lookup asked for the {kind} record although it held a fresh one',
                                    dict(det, query=k, t=rel(tq), questions=sorted(qd)), tag='asked-although-held:' + kind)
                if surely_not_held(kind, NAME.lower()) and key not in qd and not (is_qm and recently):
                    raise Violation(f'lookup did not ask for the {kind} record although it held no unexpired one',
                                    dict(det, query=k, t=rel(tq), questions=sorted(qd)), tag='not-asked:' + kind)
            if k == 0:
                target = (host0 or NAME).lower()
                for kind, qtype in (('A', 1), ('AAAA', 28)):
                    if surely_not_held(kind, target) and (target, qtype) not in qd:
                        raise Violation(f'first query does not ask for the {kind} records of the service host although none is held',
                                        dict(det, host=target, questions=sorted(qd)), tag='not-asked:' + kind)
            if is_qm:
                for key in qd:
                    asked_qm[key] = tq
    # classes / non-trivial
    pre = case['pre']
    kinds_state = {'srv': [pre['srv']], 'txt': [pre['txt']], 'a': pre['a'], 'aaaa': pre['aaaa']}
    expired_only = any(sts and all(s_ in ('expired', 'absent') for s_ in sts) and 'expired' in sts for sts in kinds_state.values())
    near_deadline = any(abs((l['t'] - t0) - timeout) <= 5 and l['g'] > ex.g_start for l in ex.log)
    if expired_only:
        classes.append('expired-but-unpurged-only')
    if near_deadline:
        classes.append('arrival-near-deadline')
    if gs is not None:
        classes.append('server-given')
    return {'nontrivial': expired_only or near_deadline, 'classes': classes, 'max': {'timeout': timeout},
            'sample': {'case': case, 'result': bool(ex.result), 'returned_at': rel(t1)}}
