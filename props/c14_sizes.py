"""C14 - Outgoing messages respect size limits and account for every section entry."""
from __future__ import annotations

from typing import Any, Dict

from vlib import msgcase, wire
from vlib.core import Violation

from . import c01_roundtrip as c01

ID = 'C14'
LEVEL = 'exploration'
RULE = ('Same message generator as C01 with the size-directed share raised (a TXT record is sized with the independent '
        'encoder so the running datagram lands within +-4 bytes of 1460, or a single entry within 4 bytes below 8966); '
        'oracle uses only the raw datagrams and the independent decoder: size limits, header counts == entries parsed, '
        'every entry in exactly one datagram in order, TC on all query datagrams but the last and never on responses. '
        'Non-trivial = >= 2 datagrams, or a datagram within 8 bytes of 1460/8966, or a single-entry datagram > 1460 bytes.')
ASSUMPTIONS = [
    'every single entry fits an otherwise empty 8966-byte datagram (stated precondition, enforced by the generator)',
    'independent decoder vlib/wire.py is correct',
]
BUDGET = {'quick': {'examples': 2000}, 'thorough': {'examples': 16000, 'shards': 16}}


def _question_heavy(case: Dict[str, Any], n: int, seed: int, keep_records: int) -> Dict[str, Any]:
    # a query whose question section alone needs several datagrams (100-400 questions), with no or very few records after it
    case = dict(case)
    case['response'] = False
    case['an'], case['ns'], case['ar'] = case['an'][:keep_records], [], case['ar'][:keep_records]
    case['bulk'] = {'seed': seed, 'n': n, 'sections': 'q', 'target': 0, 'delta': 0, 'pos': 'last', 'share': 0, 'kinds': 'all'}
    return case



def FLAKY_IS_VIOLATION(case: Any) -> bool:
    """This check is a pure function of the case (no clock, no threads, no randomness outside the case): when a violation is
    observed and the very same case passes on Hypothesis' re-run, the library has carried state from an earlier case into
    this one (a process-wide memo, a shared container) - on a correct tree the objects of one case cannot affect the next.
    What was seen stands."""
    return True


def strategy(tier: str):
    from hypothesis import strategies as st

    base = msgcase.message_case(size_directed_share=6)
    heavy = st.builds(_question_heavy, base, st.integers(100, 400), st.integers(0, 2**31), st.sampled_from([0, 0, 1, 2]))
    return st.one_of(base, base, base, base, base, base, base, heavy)


def check(case: Dict[str, Any]) -> Dict[str, Any]:
    secs, packets, maxlab = c01.run_case(case)
    if packets is None:
        return {'nontrivial': False, 'classes': ['rejected-NamePartTooLong']}
    is_query = not case['response']
    if is_query and len(secs['q']) >= 100 and len(packets) > 1:
        heavy_q = True
    else:
        heavy_q = False
    ind = {'qd': [], 'an': [], 'ns': [], 'ar': []}
    classes = []
    single_big = False
    for i, p in enumerate(packets):
        if len(p) > 8966:
            raise Violation(f'datagram {i} is {len(p)} bytes > 8966', {'len': len(p)}, tag='over-absolute')
        try:
            m = wire.strict_decode_lenient_len(p)
        except wire.Reject as e:
            raise Violation(f'datagram {i} is not well-formed: {e}', {'len': len(p), 'head': p[:64]},
                            tag='malformed')
        n = sum(len(m[s]) for s in ('qd', 'an', 'ns', 'ar'))
        if len(p) > 1460:
            if n != 1:
                raise Violation(f'datagram {i} is {len(p)} bytes > 1460 and carries {n} entries',
                                {'len': len(p), 'entries': n}, tag='over-typical')
            single_big = True
        tc = bool(m['flags'] & 0x0200)
        last = i == len(packets) - 1
        if is_query:
            if tc == last:
                raise Violation(f'query datagram {i} of {len(packets)}: TC={tc}', {'flags': m['flags']}, tag='tc-query')
        elif tc:
            raise Violation(f'response datagram {i} has TC set', {'flags': m['flags']}, tag='tc-response')
        if bool(m['flags'] & 0x8000) != case['response']:
            raise Violation(f'datagram {i}: QR bit does not match the message kind', {'flags': m['flags']}, tag='qr')
        for s in ('qd', 'an', 'ns', 'ar'):
            ind[s].extend(msgcase.wire_to_text(e) for e in m[s])
    exp = msgcase.expected_lists(case, secs)
    c01.compare(exp, ind, 'accounting')
    near = any(abs(len(p) - 1460) <= 8 or abs(len(p) - 8966) <= 8 for p in packets)
    if len(packets) > 1:
        classes.append('multi-datagram')
    if len(packets) > 5:
        classes.append('datagrams>5')
    if near:
        classes.append('near-limit')
    if any(len(p) == 1460 for p in packets):
        classes.append('exactly-1460')
    if any(len(p) == 8966 for p in packets):
        classes.append('exactly-8966')
    if single_big:
        classes.append('single-entry>1460')
    classes.append('query' if is_query else 'response')
    if heavy_q:
        classes.append('question-section-spans-datagrams')
    classes.append('multicast' if case['multicast'] else 'unicast')
    return {
        'nontrivial': len(packets) > 1 or near or single_big,
        'classes': classes,
        'max': {'datagrams': len(packets), 'entries': sum(len(v) for v in secs.values())},
        'sample': {'case': case, 'datagrams': [len(p) for p in packets]},
    }
