"""C10 - Browser keeps learned services alive: refresh queries, rate limit, liveness."""
from __future__ import annotations

import asyncio
from typing import Any, Dict, List, Optional, Set, Tuple

from hypothesis import strategies as st

from vlib.responder import build_query as rp_build_query
from vlib import sim, wire
from vlib.core import Violation

ID = 'C10'
LEVEL = 'exploration'
RULE = ('One instance with 1-2 AsyncServiceBrowsers on disjoint types, or one browser on two or three types - among them a type and one of its subtypes, whose pointers name the same instances - (delay 1/2/10/60 s, question type default/QU/QM) learns pointer '
        'records through injected responses: TTL in {1 (floored), 1125, 1200, 2000, 4500, 7200, 36000}, learned in any order, '
        'refreshed, re-cased, withdrawn or left to expire; clock steps are absolute, relative to a live record\'s lifetime '
        '(75/85/95 % +- a few ms), relative to the scheduler\'s armed wake-up (just before/after), or - for refreshes with another TTL - '
        'such that the new 75 % point lands within -1.2..+1.2 delays of a rung of the current schedule; in a third of the cases the instance '
        'advertises an instance of the browsed type itself (pre-cached pointer, refreshed by its own answers) and hears another '
        'host\'s QM question for that type just before the first (QU) query, or anywhere when the browser is forced to QU - in particular a shorter-lived '
        'record learned while the timer is armed for a longer-lived one. The run continues until every record has expired plus one '
        'delay. Oracle on the browser\'s query datagrams (independent decoder): start-up instants j, j+1, j+5, j+14 s with the recorded '
        'jitter j, first QU unless forced; afterwards distinct send instants >= delay apart; for every record lifetime an existential '
        'ladder of query instants (75 % then +10 % steps, each at most one delay late) until expiry/refresh/withdrawal; every '
        'post-start-up query lies in the refresh zone of some record version of a type it asks for. Non-trivial = >= 2 live records '
        'with different TTLs whose refresh times are out of learn order, or a refresh inside an attempt window.')
ASSUMPTIONS = [
    'the ladder is searched existentially (any behaviour the statement allows is accepted); lower slack of one delay on the first '
    'rung covers the documented avoid-churn rule',
    'a refresh arriving at the very instant of a scheduled query is a tie: either order is accepted',
    'rungs after the first may be up to one delay early as well as late: the statement bounds lateness only, and a kept schedule '
    'entry may sit up to one delay before the 75 % point of the refreshed record',
    'a second delay of lateness is accepted only for a query sent exactly one delay after the same browser\'s previous query, i.e. held '
    'back by the rate limit on top of an entry kept by the avoid-churn rule',
]
BUDGET = {'quick': {'examples': 1500}, 'thorough': {'examples': 12000, 'shards': 16}}
EPS = 0.003
# the third type is a subtype of the first: its pointer records name instances of the first type, so one instance can be known
# through two pointer records (type and subtype) of one browser
TYPES = ['_a._tcp.local.', '_b._tcp.local.', '_s._sub._a._tcp.local.']
INST_TYPE = [0, 1, 0]
TTLS = [1, 1125, 1200, 2000, 4500, 7200, 36000]
PEER = ('10.0.0.9', 5353)


def alias(ti: int, ii: int, sp: int) -> str:
    return (('Inst%d' if sp else 'inst%d') % ii) + '.' + TYPES[INST_TYPE[ti]]


def btypes(b: Dict[str, Any]) -> List[int]:
    return list(b['types']) if 'types' in b else [b['type']]


learn_st = st.fixed_dictionaries({'op': st.just('learn'), 'type': st.sampled_from([0, 0, 1, 1, 2]), 'inst': st.integers(0, 3), 'sp': st.sampled_from([0, 0, 0, 1]),
                                  'ttl': st.sampled_from(TTLS + [0]), 'repeat': st.sampled_from([0, 0, 0, 1, 2])})
# refresh aimed so that the 75 % point of the refreshed record falls at (frac x delay) from a rung of the record's current schedule:
# inside, at the edge of, and just outside the window in which the scheduler keeps the entry it already has
aligned_st = st.fixed_dictionaries({'op': st.just('learn'), 'type': st.sampled_from([0, 0, 1, 1, 2]), 'inst': st.integers(0, 1), 'sp': st.sampled_from([0, 0, 0, 1]),
                                    'ttl': st.sampled_from(TTLS), 'repeat': st.sampled_from([0, 0, 0, 1]),
                                    'align': st.fixed_dictionaries({'pct': st.sampled_from([75, 75, 85, 95]),
                                                                    'frac': st.sampled_from([-1.2, -1.0, -0.5, 0.0, 0.3, 1.0, 1.2])})})
# several pointers of one type in one datagram (a responder answering for all its instances): they share arrival time and TTL, so
# their 75 % / 85 % / 95 % points coincide
multi_st = st.fixed_dictionaries({'op': st.just('learn_multi'), 'type': st.sampled_from([0, 0, 1]),
                                  'insts': st.lists(st.integers(0, 3), min_size=2, max_size=3, unique=True),
                                  'ttl': st.sampled_from([1, 1200, 4500])})
tick_st = st.one_of(
    st.sampled_from([10, 1000, 5000, 14000, 20000, 40000, 60000, 300000, 900000, 1000000, 3000000]).map(lambda ms: {'op': 'tick', 'ms': ms}),
    st.integers(0, 5000000).map(lambda ms: {'op': 'tick', 'ms': ms}),
    st.tuples(st.sampled_from([75, 85, 95, 50]), st.sampled_from([-2000, -1, 0, 1, 2000])).map(
        lambda t: {'op': 'to_fraction', 'pct': t[0], 'delta': t[1]}),
    st.sampled_from([-500, -1, 1, 500]).map(lambda d: {'op': 'to_wakeup', 'delta': d}),
)


@st.composite
def scenario(draw) -> Dict[str, Any]:
    # one browser per type, or one browser for several types - among them a type together with one of its subtypes, whose pointer
    # records name the same instances
    # (a type and its subtype are never given to two different browsers: a browser of the parent type also acts on the subtype's
    # pointers, so both would send queries for the subtype and the per-browser attribution of queries would be ambiguous)
    layout = draw(st.sampled_from([[[0]], [[0]], [[0], [1]], [[0], [1]], [[0, 1]], [[0, 2]], [[0, 2]], [[0, 1, 2]]]))
    browsers = [{'types': ts, 'delay': draw(st.sampled_from([1, 2, 10, 60])), 'qtype': draw(st.sampled_from([None, None, 'QU', 'QM']))}
                for ts in layout]
    ops = draw(st.lists(st.one_of(learn_st, learn_st, tick_st, aligned_st, multi_st), min_size=1, max_size=12))
    if draw(st.booleans()):
        # the shape the suite lacks: a shorter-lived record learned while the timer is armed for a longer-lived one
        ops = [{'op': 'tick', 'ms': draw(st.sampled_from([15000, 20000, 100000]))},
               {'op': 'learn', 'type': 0, 'inst': 0, 'sp': 0, 'ttl': draw(st.sampled_from([4500, 7200, 36000]))},
               {'op': 'tick', 'ms': draw(st.sampled_from([1000, 40000, 600000]))},
               {'op': 'learn', 'type': 0, 'inst': 1, 'sp': 0, 'ttl': draw(st.sampled_from([1, 1200, 2000]))}] + ops
    if draw(st.integers(0, 5)) == 0:
        # a service that is withdrawn and comes back within one inter-query delay of its first sighting (a quick restart): the new
        # 75 % point lies inside the window in which the scheduler keeps an entry it already has - here one that was cancelled
        d0 = browsers[0]['delay'] * 1000
        a = draw(st.sampled_from([10, 200, d0 // 4, d0 // 2]))
        b = draw(st.sampled_from([10, 200, d0 // 4, d0 // 2 - 20]))
        ttl = draw(st.sampled_from([1, 1200, 4500]))
        ops = [{'op': 'tick', 'ms': 15000}, {'op': 'learn', 'type': browsers[0]['types'][0], 'inst': 0, 'sp': 0, 'ttl': ttl, 'repeat': 0},
               {'op': 'tick', 'ms': a}, {'op': 'learn', 'type': browsers[0]['types'][0], 'inst': 0, 'sp': 0, 'ttl': 0, 'repeat': 0},
               {'op': 'tick', 'ms': max(1, b)}, {'op': 'learn', 'type': browsers[0]['types'][0], 'inst': 0, 'sp': draw(st.sampled_from([0, 0, 1])),
                                                 'ttl': draw(st.sampled_from([ttl, 4500])), 'repeat': 0}] + ops
    if draw(st.integers(0, 5)) == 0:
        # two or three instances learned from one datagram; after their common 75 % query one of them is refreshed or withdrawn and
        # the others stay silent: they still have to be asked for at 85 % and 95 %
        ttl = draw(st.sampled_from([1, 1200, 4500]))
        insts = draw(st.lists(st.integers(0, 3), min_size=2, max_size=3, unique=True))
        ops = [{'op': 'tick', 'ms': 15000}, {'op': 'learn_multi', 'type': 0, 'insts': insts, 'ttl': ttl},
               {'op': 'to_fraction', 'pct': draw(st.sampled_from([75, 85])), 'delta': draw(st.sampled_from([2000, 20000, 61000]))},
               {'op': 'learn', 'type': 0, 'inst': draw(st.sampled_from(insts)), 'sp': 0, 'ttl': draw(st.sampled_from([0, 4500, ttl])), 'repeat': 0}] + ops
    if any(0 in b['types'] and 2 in b['types'] for b in browsers) and draw(st.booleans()):
        # one instance learned through the pointer of its type and, some time later, through the pointer of a subtype (or the other
        # way round), with equal or different TTLs: two records, two lifetimes, two refresh ladders
        a, bb = draw(st.sampled_from([(0, 2), (2, 0)]))
        ops = [{'op': 'tick', 'ms': draw(st.sampled_from([15000, 20000]))},
               {'op': 'learn', 'type': a, 'inst': 0, 'sp': 0, 'ttl': draw(st.sampled_from([1, 1200, 4500])), 'repeat': 0},
               {'op': 'tick', 'ms': draw(st.sampled_from([0, 500, 30000, 900000, 1000000]))},
               {'op': 'learn', 'type': bb, 'inst': 0, 'sp': draw(st.sampled_from([0, 0, 1])), 'ttl': draw(st.sampled_from([1, 1200, 4500])), 'repeat': 0}] + ops
    # the instance may itself advertise an instance of the first browsed type (it hears its own announcements and answers, so the
    # browser starts with that pointer cached and keeps refreshing it); only then does it take note of other hosts' questions for
    # that type: a QM question heard shortly before the browser's first (QU) query, and - for a browser forced to QU - at any point
    # of the history. QU questions are never subject to duplicate-question suppression, so the schedule must be unaffected.
    own = draw(st.sampled_from([False, False, True]))
    peer_start = draw(st.sampled_from([None, -500, -1, 0, 10])) if own and browsers[0]['qtype'] != 'QM' else None   # first query is QU
    if own and browsers[0]['qtype'] == 'QU':
        for _ in range(draw(st.integers(0, 3))):
            ops.insert(draw(st.integers(0, len(ops))), {'op': 'peer'})
    return {'jitter': draw(st.integers(0, 10**6)), 'browsers': browsers, 'ops': ops, 'own': own, 'peer_start': peer_start,
            'threaded': draw(st.sampled_from([False, False, False, True]))}


def strategy(tier: str):
    return scenario()


def known_signature(case: Any, v: Violation):
    return None


class _Mute:
    def add_service(self, zc: Any, type_: str, name: str) -> None:
        pass

    def remove_service(self, zc: Any, type_: str, name: str) -> None:
        pass

    def update_service(self, zc: Any, type_: str, name: str) -> None:
        pass


class Exec:
    def __init__(self, case: Dict[str, Any]) -> None:
        self.case = case
        self.versions: List[Dict[str, Any]] = []      # {'type','key','c','T','u'}
        self.live: Dict[Tuple[int, int], Dict[str, Any]] = {}
        self.t_start = 0.0
        self.listener: Optional[sim.RecListener] = None
        self.stats = {'refresh_in_window': 0}

    def _expire(self, now: float) -> None:
        for k, v in list(self.live.items()):
            if v['c'] + v['T'] <= now:
                del self.live[k]

    async def main(self, w: sim.World) -> None:
        from zeroconf import DNSQuestionType
        from zeroconf.asyncio import AsyncServiceBrowser

        host = w.add_host('B')
        zc = host.zc
        await zc.async_wait_for_start()
        t_own = btypes(self.case['browsers'][0])[0]
        delay_of = {ti: b['delay'] for b in self.case['browsers'] for ti in btypes(b)}
        own_name = 'own.' + TYPES[t_own]
        run = self

        def peer_asks() -> None:
            w.net.inject(host, rp_build_query([(TYPES[t_own], 12, False)], [], qid=0), PEER)
            self.stats['peer_questions'] = self.stats.get('peer_questions', 0) + 1

        ps = self.case.get('peer_start')
        if self.case.get('own'):
            from zeroconf import RecordUpdateListener

            class Spy(RecordUpdateListener):
                # the instance's own perception of its own pointer (announcements and answers heard back): each sighting is a refresh
                def async_update_records(self, zc_: Any, now_ms: float, recs: List[Any]) -> None:
                    for r in recs:
                        n = r.new
                        if n.type == 12 and n.ttl and n.name.lower() == TYPES[t_own].lower() and n.alias.lower() == own_name.lower():
                            now = now_ms / 1000.0
                            key = (t_own, 'own')
                            old = run.live.get(key)
                            if old is not None:
                                if abs(old['c'] - now) < 1e-9:
                                    continue
                                old['u'] = now
                            v = {'type': t_own, 'key': key, 'c': now, 'T': float(max(n.ttl, 1125)), 'u': None, 'sp': 0, 'recased': False}
                            run.versions.append(v)
                            run.live[key] = v

                def async_update_records_complete(self) -> None:
                    pass

            zc.async_add_listener(Spy(), None)
            task = await host.azc.async_register_service(sim.make_service_info(
                {'type': TYPES[t_own], 'name': own_name, 'port': 1, 'server': 'b.local.', 'addrs': ['10.0.0.1'], 'props': ''}))
            await task
            await asyncio.sleep(2.0)
        if ps is not None and ps <= 0:
            peer_asks()
            await asyncio.sleep(-ps / 1000.0)
        self.t_start = w.clock.t
        if ps is not None and ps > 0:
            w.loop.call_at(w.clock.t + ps / 1000.0, peer_asks)
        self.browsers = []
        self.thread_browsers: List[Any] = []
        for b in self.case['browsers']:
            qt = {None: None, 'QU': DNSQuestionType.QU, 'QM': DNSQuestionType.QM}[b['qtype']]
            lst = sim.RecListener(w)
            ts = [TYPES[ti] for ti in btypes(b)]
            if self.case.get('threaded'):
                # the blocking API's browser: same scheduler, callbacks handed to its own thread (not looked at here)
                from zeroconf import ServiceBrowser

                br = ServiceBrowser(zc, ts if len(ts) > 1 else ts[0], listener=_Mute(), delay=b['delay'] * 1000, question_type=qt)
                self.thread_browsers.append(br)
                await asyncio.sleep(0)
                self.browsers.append(br)
            else:
                self.browsers.append(AsyncServiceBrowser(zc, ts if len(ts) > 1 else ts[0], listener=lst, delay=b['delay'] * 1000, question_type=qt))
        msg_id = 1
        for op in self.case['ops']:
            now = w.clock.t
            self._expire(now)
            kind = op['op']
            if kind == 'tick':
                await asyncio.sleep(op['ms'] / 1000.0)
            elif kind == 'peer':
                if self.case.get('own') and self.case['browsers'][0]['qtype'] == 'QU':
                    peer_asks()
            elif kind == 'to_fraction':
                if self.live:
                    v = sorted(self.live.values(), key=lambda x: x['c'])[0]
                    target = v['c'] + v['T'] * op['pct'] / 100.0 + op['delta'] / 1000.0
                    if target > w.clock.t:
                        await asyncio.sleep(target - w.clock.t)
            elif kind == 'to_wakeup':
                nr = self.browsers[0].query_scheduler._next_run     # generator steering only, never used by the oracle
                if nr is not None:
                    target = nr.when() + op['delta'] / 1000.0
                    if target > w.clock.t:
                        await asyncio.sleep(target - w.clock.t)
            elif kind == 'learn_multi':
                if op['type'] not in delay_of:
                    continue
                rrs = [{'name': wire.labels_of(TYPES[op['type']]), 'type': 12, 'cls': 1, 'ttl': op['ttl'],
                        'rd': {'target': wire.labels_of(alias(op['type'], ii, 0))}} for ii in op['insts']]
                data = wire.encode({'id': msg_id, 'flags': 0x8400, 'qd': [], 'an': rrs, 'ns': [], 'ar': []})
                msg_id += 1
                now = w.clock.t
                self._expire(now)
                T = float(max(op['ttl'], 1125))
                for ii in op['insts']:
                    key = (op['type'], ii)
                    old = self.live.get(key)
                    if old is not None:
                        old['u'] = now
                    v = {'type': op['type'], 'key': key, 'c': now, 'T': T, 'u': None, 'sp': 0, 'recased': old is not None and old['sp'] != 0}
                    self.versions.append(v)
                    self.live[key] = v
                self.stats['multi'] = self.stats.get('multi', 0) + 1
                w.net.inject(host, data, PEER)
            elif kind == 'learn':
                if op['type'] not in delay_of:
                    continue
                key = (op['type'], op['inst'])
                if op.get('align') and key in self.live:
                    v0 = self.live[key]
                    rung = v0['c'] + v0['T'] * op['align']['pct'] / 100.0
                    target = rung + op['align']['frac'] * delay_of[op['type']] - 0.75 * max(op['ttl'], 1125)
                    if target > w.clock.t:
                        await asyncio.sleep(target - w.clock.t)
                        self.stats['aligned_refresh'] = self.stats.get('aligned_refresh', 0) + 1
                name = alias(op['type'], op['inst'], op['sp'])
                rr = {'name': wire.labels_of(TYPES[op['type']]), 'type': 12, 'cls': 1, 'ttl': op['ttl'],
                      'rd': {'target': wire.labels_of(name)}}
                # legal but unusual: the same pointer listed two or three times in one datagram (same effective TTL)
                data = wire.encode({'id': msg_id, 'flags': 0x8400, 'qd': [], 'an': [rr] * (1 + op.get('repeat', 0)), 'ns': [], 'ar': []})
                msg_id += 1
                now = w.clock.t
                self._expire(now)
                old = self.live.get(key)
                if op['ttl'] == 0:
                    if old is not None:
                        old['u'] = now
                        del self.live[key]
                else:
                    T = float(max(op['ttl'], 1125))
                    if old is not None:
                        old['u'] = now
                        a = old['c'] + 0.75 * old['T']
                        if any(abs(now - (a + k * 0.1 * old['T'])) <= delay_of[op['type']] for k in range(3)):
                            self.stats['refresh_in_window'] += 1
                    v = {'type': op['type'], 'key': key, 'c': now, 'T': T, 'u': None, 'sp': op['sp'],
                         'recased': old is not None and old['sp'] != op['sp']}
                    self.versions.append(v)
                    self.live[key] = v
                w.net.inject(host, data, PEER)
        # run until everything has expired, plus one delay
        end = max([v['c'] + v['T'] for v in self.versions] + [w.clock.t]) + 70
        if end > w.clock.t:
            await asyncio.sleep(end - w.clock.t)
        self.t_end = w.clock.t
        for br in self.thread_browsers:       # end the callback threads (no thread outlives a case)
            br.queue.put(None)
        for br in self.thread_browsers:
            br.join(5.0)


def check(case: Dict[str, Any]) -> Dict[str, Any]:
    ex = Exec(case)
    # multicast loop-back to the sender takes 50 us here (a question heard back a full millisecond late would, by the 999 ms rule,
    # suppress the sender's own next start-up query exactly 1000 ms later - an artefact of the simulated latency, not of the library)
    with sim.World(jitter_seed=case['jitter'], delivery=sim.Delivery(fixed_ms=0.05)) as w:
        w.run(ex.main(w))
        trace = [e for e in w.net.trace if e['host'] == 'B']
        errors = list(w.errors)
        draws = [d for d in w.jitter.draws if d['site'] == 'browser_first']
    if errors:
        raise Violation('exception reached the event loop: ' + str(errors[0].get('exception')), errors[:2], tag='loop-exception')
    t0 = ex.t_start
    rel = lambda t: round(t - t0, 3)
    nontrivial = False
    classes: List[str] = []
    for bi, b in enumerate(case['browsers']):
        tnames = [TYPES[ti].lower() for ti in btypes(b)]
        delay = float(b['delay'])
        instants: List[Tuple[float, bool]] = []
        per_type: Dict[int, List[float]] = {ti: [] for ti in btypes(b)}
        for e in trace:
            m = sim.decode_trace_entry(e)
            if m is None or m['flags'] & 0x8000 or m['ns'] or e['t'] < t0:
                continue          # responses, the instance's own registration probes, anything before the browsers exist
            qs = [q for q in m['qd'] if wire.name_text(q['name']).lower() in tnames and q['type'] == 12]
            if qs:
                if not instants or abs(instants[-1][0] - e['t']) > 1e-9:
                    instants.append((e['t'], bool(qs[0]['cls'] & 0x8000)))
                for q in qs:
                    ti = btypes(b)[tnames.index(wire.name_text(q['name']).lower())]
                    if not per_type[ti] or abs(per_type[ti][-1] - e['t']) > 1e-9:
                        per_type[ti].append(e['t'])
        times = [t for t, _ in instants]
        det: Dict[str, Any] = {'browser': bi, 'types': btypes(b), 'delay': delay, 'queries': [rel(t) for t in times][:40],
                               'versions': [(v['key'], rel(v['c']), v['T'], None if v['u'] is None else rel(v['u']))
                                            for v in ex.versions if v['type'] in btypes(b)][:12]}
        # ---- start-up ---------------------------------------------------------------------------------
        j = draws[bi]['v'] / 1000.0 if bi < len(draws) else None
        if j is None or not (0.020 <= j <= 0.120):
            raise Violation('first query delay was not drawn from 20-120 ms', dict(det, draw=draws[:2]), tag='startup-jitter')
        want = [t0 + j, t0 + j + 1, t0 + j + 5, t0 + j + 14]
        startup = [t for t in times if t <= t0 + j + 14 + EPS]
        if len(startup) != 4 or any(abs(a - bb) > EPS for a, bb in zip(startup, want)) or \
                any([t for t in per_type[ti] if t <= t0 + j + 14 + EPS] != startup for ti in per_type):
            raise Violation('start-up queries are not at j, j+1, j+5, j+14 s', dict(det, want=[rel(x) for x in want]), tag='startup-schedule')
        qu_flags = [qu for _, qu in instants[:4]]
        exp_first = {None: True, 'QU': True, 'QM': False}[b['qtype']]
        exp_rest = {None: False, 'QU': True, 'QM': False}[b['qtype']]
        if qu_flags[0] != exp_first or any(f != exp_rest for f in qu_flags[1:]):
            raise Violation('start-up question types are wrong (first QU unless forced, then QM)', dict(det, qu=qu_flags), tag='startup-qu')
        post = [t for t in times if t > t0 + j + 14 + EPS]
        # ---- (a) spacing ------------------------------------------------------------------------------
        seq = [startup[-1]] + post
        for x, y in zip(seq, seq[1:]):
            if y - x < delay - EPS:
                raise Violation('successive queries of one browser closer than the configured delay',
                                dict(det, pair=(rel(x), rel(y))), tag='spacing')
        # ---- (b) liveness ladders -----------------------------------------------------------------------
        vs_all = [v for v in ex.versions if v['type'] in btypes(b)]
        all_times = [t for t, _ in instants]
        for v in vs_all:
            c, T = v['c'], v['T']
            times = per_type[v['type']]      # the queries that ask for this record's type
            end = min(c + T, v['u'] if v['u'] is not None else c + T, ex.t_end)     # nothing is required past the end of the run
            step = 0.1 * T

            def in_window(x: float, due: float) -> bool:
                # one delay of slack on both sides: a schedule kept by the avoid-churn rule steps with the previous TTL and may sit
                # up to one delay after the point that is due; on top of that the rate limit may hold a query back until exactly one
                # delay after the browser's previous query (and only then is a second delay of lateness accepted)
                if due - delay - EPS <= x <= due + delay + EPS:
                    return True
                return due + delay < x <= due + 2 * delay + EPS and any(abs(x - y - delay) <= EPS for y in all_times)

            first_sighting = not any(v2 is not v and v2['key'] == v['key'] and v2['c'] < c for v2 in vs_all)

            def ok(s: float) -> bool:
                due = s + step
                if due + EPS >= end:
                    return True
                if due + delay + EPS >= end:
                    # the step is due before the record ends, but a full delay of lateness would carry it past the end. It may be
                    # missing only if something really holds it: the rate limit (the browser's previous query less than one delay
                    # before the end), or - for a record seen before - a schedule kept by the avoid-churn rule
                    prev = max([y for y in all_times if y <= due + EPS] or [-1e18])
                    if not first_sighting or prev + delay + EPS >= end:
                        return True
                return any(ok(s2) for s2 in times if s2 > s and in_window(s2, due))

            first = c + 0.75 * T
            if first + delay + EPS < end:
                if not any(ok(s1) for s1 in times if in_window(s1, first)):
                    raise Violation('record was not queried for at 75 % of its TTL and then every further 10 % until it '
                                    'expired / was refreshed (no valid ladder of refresh queries)',
                                    dict(det, record=v['key'], learned=rel(c), ttl=T, ends=rel(end), first_due=rel(first),
                                         recased=v['recased']), tag='ladder-missing')
        # ---- (c) no stale schedule ---------------------------------------------------------------------
        for ti in btypes(b):
          vs = [v for v in vs_all if v['type'] == ti]
          for t in [x for x in per_type[ti] if x > t0 + j + 14 + EPS]:
            # closed at a refresh/withdrawal; an attempt due before expiry may be up to one delay late, i.e. past the expiry
            if not any(v['c'] + 0.75 * v['T'] - delay - EPS <= t <= (v['u'] if v['u'] is not None and v['u'] < v['c'] + v['T']
                                                                    else v['c'] + v['T'] + delay) + EPS for v in vs):
                raise Violation('query sent outside the refresh zone of every record version (stale schedule)',
                                dict(det, t=rel(t), type=ti), tag='stale-schedule')
        # classes
        vs = vs_all
        if len(btypes(b)) > 1:
            classes.append('multi-type-browser')
            if 0 in btypes(b) and 2 in btypes(b) and {v['key'][1] for v in vs if v['type'] == 0} & {v['key'][1] for v in vs if v['type'] == 2}:
                classes.append('instance-known-through-type-and-subtype-pointer')
        firsts = sorted((v['c'] + 0.75 * v['T'], v['c']) for v in vs)
        if any(a[1] > bb[1] for a, bb in zip(firsts, firsts[1:])) and len({v['T'] for v in vs}) > 1:
            nontrivial = True
            classes.append('refresh-times-out-of-learn-order')
        if post:
            classes.append('refresh-queries-sent')
        if any(v['recased'] for v in vs):
            classes.append('recased-refresh')
        if any(v['u'] is not None for v in vs):
            classes.append('refreshed-or-withdrawn')
    if case.get('own'):
        classes.append('instance-advertises-the-browsed-type-itself')
    if ex.stats.get('peer_questions'):
        classes.append('peer-asked-the-same-question')
    if ex.stats.get('aligned_refresh'):
        nontrivial = True
        classes.append('refresh-with-75pct-point-near-the-scheduled-query')
    if ex.stats.get('multi'):
        classes.append('several-pointers-learned-from-one-datagram')
    if ex.stats['refresh_in_window']:
        nontrivial = True
        classes.append('refresh-inside-attempt-window')
    classes.append('browsers-%d' % len(case['browsers']))
    if case.get('threaded'):
        classes.append('thread-based-ServiceBrowser')
    return {'nontrivial': nontrivial, 'classes': sorted(set(classes)), 'max': {'versions': len(ex.versions)},
            'sample': {'case': case}}
