"""C17, the clause about threads: Zeroconf() with its own loop thread, closed with close() from a non-loop thread.

Runs on vlib.rtsim (real selector loop, real threads, clock compressed 10x).  The verdict never depends on timing: it compares
the global order of events with the instant close() returned, counts goodbyes, and looks at thread liveness and at how calls
that were in flight on other threads ended.
"""
from __future__ import annotations

import threading
import time as _time
from typing import Any, Dict, List, Optional, Tuple

from hypothesis import strategies as st

from vlib import responder as rp, rtsim, sim, wire
from vlib.core import Violation

TYPES = ['_http._tcp.local.', '_ipp._tcp.local.']
SVCS = [
    {'type': TYPES[0], 'name': 'vic0.' + TYPES[0], 'port': 80, 'server': 'victim.local.', 'addrs': ['10.0.0.1'], 'props': ''},
    {'type': TYPES[1], 'name': 'vic1.' + TYPES[1], 'port': 81, 'server': 'victim.local.', 'addrs': ['10.0.0.1', 'fe80::1'], 'props': '00'},
    {'type': TYPES[0], 'name': 'vic2.' + TYPES[0], 'port': 82, 'server': 'victim-b.local.', 'addrs': ['10.0.0.1', 'fe80::1'], 'props': ''},
]
# how a call that was in flight on another thread when close() was requested may end (all documented)
ALLOWED_EXC = ('NotRunningException', 'NonUniqueNameException', 'EventLoopBlocked')
JOIN_S = 40.0       # real seconds; safeguard only ("never" for a call that should take milliseconds)


@st.composite
def threaded_scenario(draw) -> Dict[str, Any]:
    if draw(st.integers(0, 7)) == 0:
        return draw(apploop_scenario())
    ops: List[Dict[str, Any]] = []
    n = draw(st.integers(1, 6))
    nreg = 0
    for i in range(n):
        kind = draw(st.sampled_from(['register', 'register', 'browser', 'browser', 'announce', 'query', 'lookup', 'sleep', 'unregister']))
        op: Dict[str, Any] = {'op': kind}
        if kind == 'register':
            if nreg >= 3:
                continue
            op['svc'] = nreg
            nreg += 1
            # 'bg': the call is made on another thread and may still be probing / announcing when close() is requested
            op['bg'] = draw(st.sampled_from([False, False, True]))
        elif kind == 'browser':
            op['type'] = draw(st.integers(0, 1))
            op['slow_ms'] = draw(st.sampled_from([0, 0, 0, 100]))
            # the listener starts further browsers from its callbacks (browse the type enumeration, then every type found)
            op['spawn'] = draw(st.sampled_from([0, 0, 0, 1, 2]))
            # the listener closes the instance from its first callback ("found what I was looking for, done")
            op['close_here'] = draw(st.sampled_from([False] * 7 + [True]))
            op['direct'] = draw(st.sampled_from([False, False, True]))
        elif kind == 'announce':
            op['type'] = draw(st.integers(0, 1))
            op['n'] = draw(st.integers(1, 4))
        elif kind == 'query':
            op['what'] = draw(st.sampled_from(['ptr', 'srv', 'addr']))
            op['tc'] = draw(st.sampled_from([False, False, True]))
        elif kind == 'lookup':
            op['timeout'] = draw(st.sampled_from([200, 500, 500, 800, 800, 800, 3000]))
            op['target'] = draw(st.sampled_from(['ghost', 'announced']))
        elif kind == 'sleep':
            op['ms'] = draw(st.sampled_from([1, 50, 200, 500, 1300]))
        ops.append(op)
    if draw(st.integers(0, 6)) == 0:
        # the README's usage: the application creates ServiceBrowser objects itself and, when done, only closes the instance
        ops = [{'op': 'browser', 'type': 1, 'slow_ms': draw(st.sampled_from([0, 100])), 'spawn': 0, 'close_here': False, 'direct': True}] + \
              [{'op': 'announce', 'type': 1, 'n': draw(st.integers(1, 4))} for _ in range(draw(st.integers(1, 3)))]
        if draw(st.booleans()):
            ops.insert(0, {'op': 'register', 'svc': 0, 'bg': False})
        return {'kind': 'threaded', 'jitter': draw(st.integers(0, 10**6)), 'ops': ops,
                'close_after_ms': draw(st.sampled_from([0, 50, 300])), 'how': draw(st.sampled_from(['close', 'with'])),
                'post_traffic': draw(st.integers(0, 2))}
    if draw(st.integers(0, 7)) == 0:
        # the application closes the instance from inside a ServiceBrowser callback (a non-loop thread like any other)
        ops = [{'op': 'register', 'svc': 0, 'bg': False}] if draw(st.booleans()) else []
        ops += [{'op': 'browser', 'type': 1, 'slow_ms': draw(st.sampled_from([0, 100])), 'spawn': 0, 'close_here': True},
                {'op': 'announce', 'type': 1, 'n': draw(st.integers(1, 4))}]
        if draw(st.booleans()):
            ops.append({'op': 'announce', 'type': 1, 'n': 2})
        return {'kind': 'threaded', 'jitter': draw(st.integers(0, 10**6)), 'ops': ops,
                'close_after_ms': draw(st.sampled_from([300, 600])), 'how': 'close', 'post_traffic': draw(st.integers(0, 1))}
    if draw(st.integers(0, 5)) == 0:
        # a slow listener that starts another browser from each of its callbacks; callbacks are still outstanding when close()
        # is requested, so browsers come into being while close() is removing them
        ops = [{'op': 'announce', 'type': 0, 'n': 2}, {'op': 'browser', 'type': 1, 'slow_ms': 100, 'spawn': draw(st.integers(1, 3))}] + \
              [{'op': 'announce', 'type': 1, 'n': draw(st.integers(1, 4))} for _ in range(draw(st.integers(1, 3)))]
        return {'kind': 'threaded', 'jitter': draw(st.integers(0, 10**6)), 'ops': ops,
                'close_after_ms': draw(st.sampled_from([0, 50, 150, 300])), 'how': draw(st.sampled_from(['close', 'with'])), 'post_traffic': 0}
    if draw(st.integers(0, 3)) == 0:
        # close() first withdraws what is registered and then joins the browser threads, which takes as long as their listeners
        # do - while the loop thread goes on: a registration made on another thread may complete in that time
        ops = [{'op': 'browser', 'type': 1, 'slow_ms': 100}] + \
              [{'op': 'announce', 'type': 1, 'n': 4} for _ in range(draw(st.integers(1, 3)))] + \
              [{'op': 'register', 'svc': 0, 'bg': True}]
        return {'kind': 'threaded', 'jitter': draw(st.integers(0, 10**6)), 'ops': ops,
                'close_after_ms': draw(st.sampled_from([0, 50, 150, 300])), 'how': draw(st.sampled_from(['close', 'with'])), 'post_traffic': 0}
    return {'kind': 'threaded', 'jitter': draw(st.integers(0, 10**6)), 'ops': ops,
            'close_after_ms': draw(st.sampled_from([0, 0, 1, 20, 100, 180, 400, 600, 1000])),
            'how': draw(st.sampled_from(['close', 'close', 'with'])),
            'post_traffic': draw(st.integers(0, 2))}


class ThreadListener:
    """ServiceListener for the thread-based ServiceBrowser; every callback is stamped with the global sequence number."""

    def __init__(self, w: rtsim.RTWorld, slow_ms: int, spawn: int = 0, spawn_type: str = '', children: Optional[List['ThreadListener']] = None) -> None:
        self.w, self.slow_ms = w, slow_ms
        self.events: List[Tuple[int, str, str, int]] = []
        self.spawn, self.spawn_type, self.children = spawn, spawn_type, children
        self.closer: Any = None          # set for a listener that closes the instance from its first callback
        self.spawn_outcomes: List[str] = []
        self.spawn_g: List[int] = []

    def _cb(self, kind: str, name: str, zc: Any = None) -> None:
        g0 = self.w.next_g()
        if self.slow_ms:
            self.w.sleep_ms(self.slow_ms)
        if self.closer is not None:
            closer, self.closer = self.closer, None
            closer(g0)
        if self.spawn > 0 and zc is not None and self.children is not None:
            self.spawn -= 1
            child = ThreadListener(self.w, 0)
            self.children.append(child)
            self.spawn_g.append(self.w.next_g())
            try:
                zc.add_service_listener(self.spawn_type, child)
                self.spawn_outcomes.append('ok')
            except BaseException as e:  # noqa  (the instance may be closing: whatever it raises is the application's to handle)
                self.spawn_outcomes.append(type(e).__name__)
        self.events.append((g0, kind, name, self.w.next_g()))

    def add_service(self, zc: Any, type_: str, name: str) -> None:
        self._cb('add', name, zc)

    def remove_service(self, zc: Any, type_: str, name: str) -> None:
        self._cb('remove', name)

    def update_service(self, zc: Any, type_: str, name: str) -> None:
        self._cb('update', name)


class PlainListener:
    def __init__(self, w: rtsim.RTWorld) -> None:
        self.w = w
        self.calls: List[int] = []

    def async_update_records(self, zc: Any, now: float, records: List[Any]) -> None:
        self.calls.append(self.w.next_g())

    def async_update_records_complete(self) -> None:
        pass


class Bg:
    """A library call made on its own thread."""

    def __init__(self, name: str, fn: Any) -> None:
        self.name, self.fn = name, fn
        self.result: Any = None
        self.exc: Optional[BaseException] = None
        self.thread = threading.Thread(target=self._run, name='harness-' + name, daemon=True)

    def _run(self) -> None:
        try:
            self.result = self.fn()
        except BaseException as e:  # noqa
            self.exc = e


def _wait_for(pred: Any, real_s: float = 3.0) -> bool:
    t_end = _time.perf_counter() + real_s
    while _time.perf_counter() < t_end:
        if pred():
            return True
        _time.sleep(0.0005)
    return False


@st.composite
def apploop_scenario(draw) -> Dict[str, Any]:
    """The instance lives in the application's own event loop (AsyncZeroconf created in a coroutine), which keeps running after the
    instance was closed with the blocking close() from another thread (loop.run_in_executor(None, zc.close))."""
    return {'kind': 'apploop', 'jitter': draw(st.integers(0, 10**6)), 'browser': draw(st.booleans()), 'register': draw(st.booleans()),
            'short_ttl': draw(st.sampled_from([1, 2, 5])), 'close_after_ms': draw(st.sampled_from([0, 300, 1500])),
            'linger_ms': draw(st.sampled_from([12000, 25000])),
            # ... or closed with async_close() while it also carries a thread-based browser whose listener is slow (the close has
            # to join that thread) and a registration made a moment before is still probing
            'how': draw(st.sampled_from(['sync', 'sync', 'async'])), 'thread_browser': draw(st.booleans()),
            'bg_register': draw(st.sampled_from([False, True, True]))}


def check_apploop(case: Dict[str, Any]) -> Dict[str, Any]:
    import asyncio

    classes = ['app-loop-close-from-another-thread']
    with rtsim.RTWorld(case['jitter']) as w:
        loop = asyncio.new_event_loop()          # an RTLoop (policy of the world): compressed clock, fake sockets
        lt = threading.Thread(target=loop.run_forever, name='harness-app-loop', daemon=True)
        lt.start()
        plain = PlainListener(w)
        lst = ThreadListener(w, 0)
        holder: Dict[str, Any] = {}

        async def make() -> None:
            from zeroconf.asyncio import AsyncServiceBrowser, AsyncZeroconf

            azc = AsyncZeroconf()
            await azc.zeroconf.async_wait_for_start()
            azc.zeroconf.async_add_listener(plain, None)
            if case['browser']:
                holder['browser'] = AsyncServiceBrowser(azc.zeroconf, TYPES[0], listener=lst)
            if case['register']:
                await (await azc.async_register_service(sim.make_service_info(SVCS[0])))
            holder['azc'] = azc

        try:
            asyncio.run_coroutine_threadsafe(make(), loop).result(JOIN_S)
            zc = holder['azc'].zeroconf
            w.zc = None
            # a peer's records with a short TTL: they run out after the close, and the ten-second purge would report them
            name = 'peer0.' + TYPES[0]
            data = wire.encode({'id': 0, 'flags': 0x8400, 'qd': [], 'an': [
                rp.wire_rr_of_ident(('PTR', TYPES[0], name), 4500),
                rp.wire_rr_of_ident(('SRV', name, 0, 0, 99, 'peerhost.local.'), case['short_ttl'], flush=True),
                rp.wire_rr_of_ident(('A', 'peerhost.local.', '0a000009'), case['short_ttl'], flush=True)], 'ns': [], 'ar': []})
            w.inject(data, ('10.0.0.9', 5353))
            tl = ThreadListener(w, 100)
            if case.get('thread_browser'):
                zc.add_service_listener(TYPES[1], tl)
                ann = wire.encode({'id': 0, 'flags': 0x8400, 'qd': [], 'an': [rp.wire_rr_of_ident(('PTR', TYPES[1], f'q{k}.{TYPES[1]}'), 4500)
                                                                              for k in range(6)], 'ns': [], 'ar': []})
                w.inject(ann, ('10.0.0.9', 5353))
            w.sleep_ms(case['close_after_ms'])
            bg = None
            if case.get('bg_register') and not case['register']:
                bg = asyncio.run_coroutine_threadsafe(holder['azc'].async_register_service(sim.make_service_info(SVCS[0])), loop)
                w.sleep_ms(60)
            g_call = w.mark('close-call')
            exc: List[BaseException] = []
            try:
                if case.get('how') == 'async':
                    asyncio.run_coroutine_threadsafe(holder['azc'].async_close(), loop).result(JOIN_S)
                else:
                    zc.close()                     # this thread is not the loop's thread
            except BaseException as e:  # noqa
                exc.append(e)
            g_done = w.mark('close-done')
            if bg is not None:
                try:
                    bg.result(JOIN_S)
                except BaseException as e:  # noqa
                    if type(e).__name__ not in ALLOWED_EXC + ('CancelledError',):
                        raise Violation(f'registration in flight at the close ended with {type(e).__name__}', {'exc': repr(e)},
                                        tag='apploop-task-raised:' + type(e).__name__)
            w.sleep_ms(case['linger_ms'])      # the application's loop goes on: more than one purge period of library time
            det = {'register': case['register'], 'browser': case['browser'], 'linger_ms': case['linger_ms']}
            if exc:
                raise Violation(f'close() raised {type(exc[0]).__name__}', dict(det, exc=repr(exc[0])), tag='apploop-close-raised:' + type(exc[0]).__name__)
            late = [e for e in list(w.trace) if e['g'] > g_done]
            if late:
                raise Violation('instance transmitted after close() had returned', dict(det, n=len(late)), tag='apploop-send-after-close')
            if any(g > g_done for g in plain.calls):
                raise Violation('RecordUpdateListener called after close() had returned (the application\'s loop is still running)', det,
                                tag='apploop-listener-after-close')
            cb = [e for e in lst.events if e[3] > g_done]
            if cb:
                raise Violation('browser callback ran after close() had returned (the application\'s loop is still running)',
                                dict(det, callback=cb[0][1:3]), tag='apploop-callback-after-close')
            if w.errors:
                raise Violation('exception reached the event loop: ' + str(w.errors[0].get('exception')), dict(det, errors=[(e['message'], e['exception']) for e in w.errors[:3]]),
                                tag='loop-exception:' + str(w.errors[0].get('type')))
            cb2 = [e for e in tl.events if e[3] > g_done]
            if cb2:
                raise Violation('thread-browser callback ran after the close had returned', dict(det, callback=cb2[0][1:3]), tag='apploop-thread-callback-after-close')
            # the last word about the instance's own service (registered before, or while, the close ran) is a goodbye
            sv = rp.Svc(SVCS[0])
            own = {sv.ptr(), sv.srv(), sv.txt()}
            last_word: Dict[Any, int] = {}
            for e in list(w.trace):
                if e['dst'] != sim.MDNS4 or e['closed']:
                    continue
                m = sim.decode_trace_entry(e)
                if m is None or not m['flags'] & 0x8000:
                    continue
                for r in m['an'] + m['ar']:
                    i = rp.ident_of_wire_rr(r)
                    if i in own:
                        last_word[i] = r['ttl']
            alive_recs = sorted(str(i) for i, ttl in last_word.items() if ttl > 0)
            if alive_recs:
                raise Violation('the last thing the instance multicast about one of its own records before the close returned carried a '
                                'non-zero TTL (announced, never withdrawn)', dict(det, records=alive_recs[:4], how=case.get('how')),
                                tag='apploop-close-last-word')
            if case.get('how') == 'async':
                classes.append('app-loop-async_close-' + ('with-slow-thread-browser' if case.get('thread_browser') else 'plain'))
            if bg is not None:
                classes.append('app-loop-registration-in-flight-at-close')
        finally:
            loop.call_soon_threadsafe(loop.stop)
            lt.join(JOIN_S)
    return {'nontrivial': True, 'classes': classes, 'max': {'ops': 1}, 'sample': {'case': case}}


def check_threaded(case: Dict[str, Any]) -> Dict[str, Any]:
    if case.get('kind') == 'apploop':
        return check_apploop(case)
    try:
        return _check_threaded(case)
    except Violation as v:
        if v.tag != 'threaded-close-raised:EventLoopBlocked':
            raise
    # close() itself reported the loop as blocked: on a saturated machine a 3 s stall can be the machine's; only a repeat counts
    return _check_threaded(case)


def _check_threaded(case: Dict[str, Any]) -> Dict[str, Any]:
    classes: List[str] = ['threaded-close']
    bgs: List[Bg] = []
    listeners: List[ThreadListener] = []
    registered: List[int] = []      # services whose blocking register_service() returned (and were not unregistered)
    unregistered_ks: set = set()
    direct_browsers: List[Any] = []
    infos: Dict[int, Any] = {}
    announced: List[str] = []
    threads_before = set(threading.enumerate())
    with rtsim.RTWorld(case['jitter']) as w:
        zc = w.start()
        plain = PlainListener(w)
        zc.add_listener(plain, None)
        loop_thread = zc._loop_thread
        browser_threads: List[Any] = []

        C: Dict[str, Any] = {'started': threading.Event(), 'finished': threading.Event(), 'lock': threading.Lock(), 'exc': []}

        def do_close(who: str, cb_g0: Any) -> None:
            """close the instance once - from the harness' closer thread, or from inside a ServiceBrowser callback"""
            with C['lock']:
                if C['started'].is_set():
                    return
                C['started'].set()
            C['who'], C['closing_cb_g0'] = who, cb_g0
            C['in_flight'] = [b.name for b in bgs if b.thread.is_alive()]
            C['in_registry'] = [rp.Svc(SVCS[k]) for k in list(registered) if zc.registry.async_get_info_name(SVCS[k]['name'].lower()) is not None]
            C['queued'] = len(zc.out_queue.queue) + len(zc.out_delay_queue.queue)
            C['g_call'] = w.mark('close-call')
            try:
                if case['how'] == 'with' and who == 'harness':
                    with zc:
                        pass
                else:
                    zc.close()
            except BaseException as e:  # noqa
                C['exc'].append(e)
            C['g_done'] = w.mark('close-done')
            C['finished'].set()

        def n_probes() -> int:
            return sum(1 for e in list(w.trace) if len(e['data']) > 3 and not (e['data'][2] & 0x80))

        for i, op in enumerate(case['ops']):
            kind = op['op']
            # no operation starts once a close has begun (the close may come from a browser callback, i.e. another thread): an
            # application adding listeners to an instance that one of its own threads is closing is its own race, not the library's
            if C['started'].is_set():
                break
            held = kind != 'sleep'
            if held:
                C['lock'].acquire()
                if C['started'].is_set():
                    C['lock'].release()
                    break
            try:
                if kind == 'register':
                    info = sim.make_service_info(SVCS[op['svc']])
                    infos[op['svc']] = info
                    if op['bg']:
                        before = n_probes()
                        b = Bg(f'register{op["svc"]}', lambda info=info: zc.register_service(info))
                        bgs.append(b)
                        b.thread.start()
                        _wait_for(lambda: n_probes() > before or not b.thread.is_alive())    # it is inside the library, on the loop
                    else:
                        zc.register_service(info)
                        registered.append(op['svc'])
                elif kind == 'unregister' and registered:
                    k = registered.pop(0)
                    unregistered_ks.add(k)
                    zc.unregister_service(infos[k])
                elif kind == 'browser':
                    lst = ThreadListener(w, op['slow_ms'], op.get('spawn', 0), TYPES[1 - op['type']], listeners)
                    if op.get('close_here'):
                        lst.closer = lambda g0: do_close('callback', g0)
                    listeners.append(lst)
                    if op.get('direct'):
                        # the README's way: the application creates the ServiceBrowser itself and only ever closes the instance
                        from zeroconf import ServiceBrowser

                        browser_threads.append(ServiceBrowser(zc, TYPES[op['type']], listener=lst))
                        direct_browsers.append(browser_threads[-1])
                    else:
                        zc.add_service_listener(TYPES[op['type']], lst)
                        browser_threads.append(zc.browsers[lst])
                elif kind == 'announce':
                    names = [f'peer{i}x{k}.{TYPES[op["type"]]}' for k in range(op['n'])]
                    announced.extend(n for n in names if n.endswith(TYPES[0]))
                    data = wire.encode({'id': 0, 'flags': 0x8400, 'qd': [], 'an': [rp.wire_rr_of_ident(
                        ('PTR', TYPES[op['type']], nm), 4500) for nm in names], 'ns': [], 'ar': []})
                    w.inject(data, ('10.0.0.9', 5353))
                elif kind == 'query':
                    if op['what'] == 'ptr':
                        qs = [(TYPES[0], 12, False)]
                    elif op['what'] == 'srv':
                        qs = [(SVCS[0]['name'], 33, False), (SVCS[0]['name'], 16, False)]
                    else:
                        qs = [('victim.local.', 1, False), (TYPES[1], 12, False)]
                    w.inject(rp.build_query(qs, [], qid=7, tc=op['tc']), ('10.0.0.77', 5353))
                elif kind == 'lookup':
                    name = announced[0] if (op['target'] == 'announced' and announced) else 'ghost.' + TYPES[0]
                    before = len(w.trace)
                    b = Bg(f'lookup{i}', lambda name=name, t=op['timeout']: zc.get_service_info(TYPES[0], name, t))
                    bgs.append(b)
                    b.thread.start()
                    _wait_for(lambda: len(w.trace) > before or not b.thread.is_alive())      # its first query is out: it is waiting
                elif kind == 'sleep':
                    w.sleep_ms(op['ms'])
            finally:
                if held:
                    C['lock'].release()
        w.sleep_ms(case['close_after_ms'])
        if not C['started'].is_set():
            ct = threading.Thread(target=do_close, args=('harness', None), name='harness-closer', daemon=True)
            ct.start()
        if not C['finished'].wait(JOIN_S):
            raise Violation('close() called from a non-loop thread did not return', {'in_flight': C.get('in_flight'), 'real_seconds': JOIN_S,
                                                                                     'called_from': C.get('who')},
                            tag='threaded-close-hangs')
        in_flight, in_registry, queued, closer_exc = C['in_flight'], C['in_registry'], C['queued'], C['exc']
        g_call, g_done = C['g_call'], C['g_done']
        det: Dict[str, Any] = {'in_flight_at_close': in_flight, 'ops': [o['op'] for o in case['ops']]}
        if closer_exc:
            raise Violation(f'close() raised {type(closer_exc[0]).__name__}', dict(det, exc=repr(closer_exc[0])), tag='threaded-close-raised:' + type(closer_exc[0]).__name__)
        # traffic after the close, a second close, and time for anything left behind to show itself
        for k in range(case['post_traffic']):
            w.inject(rp.build_query([(TYPES[0], 12, bool(k % 2))], [], qid=9), ('10.0.0.77', 5353 if k % 2 else 40001))
            w.sleep_ms(100)
        g_second = w.mark('second-close')
        second_exc: Optional[BaseException] = None
        try:
            zc.close()
        except BaseException as e:  # noqa
            second_exc = e
        w.sleep_ms(600)
        for b in bgs:
            b.thread.join(JOIN_S)
        # ---- verdict -------------------------------------------------------------------------------------
        trace = list(w.trace)
        if second_exc is not None:
            raise Violation(f'second close() raised {type(second_exc).__name__}', dict(det, exc=repr(second_exc)), tag='threaded-second-close-raised')
        late = [e for e in trace if e['g'] > g_done]
        if late:
            raise Violation('instance transmitted after close() had returned',
                            dict(det, n=len(late), dst=late[0]['dst'], thread=late[0]['thread'], after_second_close=late[0]['g'] > g_second),
                            tag='threaded-send-after-close')
        if loop_thread is not None and loop_thread.is_alive():
            raise Violation('the event-loop thread started by Zeroconf() is still alive after close() returned', det, tag='threaded-loop-thread-alive')
        alive = [t.name for t in browser_threads if t.is_alive()]
        # browsers started from callbacks included: any thread of the library that came into being during this case
        alive += [t.name for t in threading.enumerate() if t not in threads_before and t.is_alive() and t.name.startswith('zeroconf-')
                  and t.name not in alive]
        if alive:
            raise Violation('thread of a ServiceBrowser still alive after close() returned', dict(det, threads=alive), tag='threaded-browser-thread-alive')
        for lst in listeners:
            # (the callback from which the application closed the instance is still running when close() returns)
            cb = [e for e in lst.events if e[3] > g_done and e[0] != C.get('closing_cb_g0')]
            if cb:
                raise Violation('ServiceBrowser listener callback ran after close() had returned',
                                dict(det, callback=cb[0][1:3], started_after=cb[0][0] > g_done), tag='threaded-callback-after-close')
        if any(g > g_done for g in plain.calls):
            raise Violation('RecordUpdateListener called after close() had returned', det, tag='threaded-listener-after-close')
        if w.errors:
            raise Violation('exception reached the event loop: ' + str(w.errors[0].get('exception')),
                            dict(det, errors=[(e['message'], e['exception']) for e in w.errors[:3]]),
                            tag='loop-exception:' + str(w.errors[0].get('type')))
        for b in bgs:
            if b.thread.is_alive():
                raise Violation('a call in flight on another thread when close() was requested never returned',
                                dict(det, call=b.name), tag='threaded-hang')
            if b.exc is not None and type(b.exc).__name__ not in ALLOWED_EXC:
                raise Violation(f'call in flight on another thread ended with {type(b.exc).__name__}',
                                dict(det, call=b.name, exc=repr(b.exc)), tag='threaded-task-raised:' + type(b.exc).__name__)
        # the last word about each of the instance's own records before the sockets closed must be a goodbye (also for a
        # registration on another thread that completed while the close was under way)
        own = set()
        for k_, d in enumerate(SVCS):
            sv = rp.Svc(d)
            own |= {sv.ptr(), sv.srv(), sv.txt()}
            if k_ not in unregistered_ks:
                own |= set(sv.addresses())      # (an earlier unregister leaves the addresses to a sibling on the host name)
        last_word: Dict[Any, int] = {}
        for e in trace:
            if e['dst'] != sim.MDNS4 or e['closed']:
                continue
            m = sim.decode_trace_entry(e)
            if m is None or not m['flags'] & 0x8000:
                continue
            for r in m['an'] + m['ar']:
                i = rp.ident_of_wire_rr(r)
                if i in own:
                    last_word[i] = r['ttl']
        alive_recs = sorted(str(i) for i, ttl in last_word.items() if ttl > 0)
        if alive_recs:
            raise Violation('the last thing the instance multicast about one of its own records before close() returned carried a '
                            'non-zero TTL (announced or answered for, never withdrawn)', dict(det, records=alive_recs[:4]),
                            tag='threaded-close-last-word')
        g_socks = min([g for g, what in w.marks if what == 'transport-closed'] or [g_done])
        for s in in_registry:
            want = {s.ptr(), s.srv(), s.txt()} | set(s.addresses())
            n_bye = 0
            for e in trace:
                if not (g_call < e['g'] < g_socks) or e['dst'] != sim.MDNS4 or e['closed']:
                    continue
                m = sim.decode_trace_entry(e)
                if m is None or not m['flags'] & 0x8000:
                    continue
                if want <= {rp.ident_of_wire_rr(r) for r in m['an'] if r['ttl'] == 0}:
                    n_bye += 1
            if n_bye != 3:
                raise Violation(f'service registered at close() time got {n_bye} complete goodbyes instead of three before the sockets closed',
                                dict(det, service=s.name), tag='threaded-close-goodbyes')
    if in_flight:
        classes.append('threaded-close-with-calls-in-flight-on-other-threads')
    if in_registry:
        classes.append('threaded-close-with-registered-services')
    if queued:
        classes.append('threaded-close-with-queued-answers')
    if listeners:
        classes.append('threaded-close-with-thread-browsers')
    if direct_browsers:
        classes.append('threaded-ServiceBrowser-created-by-the-application-itself')
    if C.get('who') == 'callback':
        classes.append('threaded-close-called-from-a-browser-callback')
    if any(l.spawn_outcomes for l in listeners):
        classes.append('threaded-browser-started-from-a-callback')
    if any(g_call < g < g_done for l in listeners for g in l.spawn_g):
        classes.append('threaded-browser-started-from-a-callback-while-close-was-under-way')
    if any(b.exc is not None for b in bgs):
        classes.append('threaded-in-flight-call-raised-documented-exception')
    return {'nontrivial': bool(in_flight or in_registry or queued or listeners), 'classes': classes, 'max': {'ops': len(case['ops'])},
            'sample': {'case': case, 'outcomes': [(b.name, type(b.exc).__name__ if b.exc else 'ok') for b in bgs]}}
