import asyncio, random, sys, math
from simlib import *
from zeroconf import DNSOutgoing, DNSPointer, DNSIncoming
from zeroconf.asyncio import AsyncServiceBrowser
T='_http._tcp.local.'
def run(seed, verbose=False):
    rnd=random.Random(seed)
    loop, net = setup()
    viol=[]
    snaps=[]
    async def main():
        random.seed(seed)
        b=net.mkhost('B','10.0.0.2'); zc=b.azc.zeroconf
        await zc.async_wait_for_start()
        # wrap sendto to snapshot cache
        tr=b.endpoints[0][0]; orig=tr.sendto
        def st(data, addr=None):
            now=loop.time()*1000
            snaps.append((loop.time(), bytes(data), [(r.alias.lower(), r.created, r.ttl) for r in zc.cache.entries_with_name(T) if r.type==12]))
            return orig(data, addr)
        tr.sendto=st
        n=rnd.choice([0,1,3,20,120,400])
        for k in range(n):
            ttl=rnd.choice([1125,1200,4500])
            o=DNSOutgoing(0x8400); o.add_answer_at_time(DNSPointer(T,12,1,ttl,'inst%d-%s.%s'%(k,'x'*rnd.randint(0,40),T)),0)
            net.inject(b,o.packets()[0],('10.0.0.9',5353))
            if rnd.random()<0.1: await asyncio.sleep(rnd.choice([0.001,1,100,562.5,600]))
        await asyncio.sleep(rnd.choice([0,1,500,562.4,562.5,562.6,600,2249.9,2250,2250.1]))
        br=AsyncServiceBrowser(zc,T,listener=type('L',(),{'add_service':lambda *a:None,'remove_service':lambda *a:None,'update_service':lambda *a:None})())
        await asyncio.sleep(20)
        await br.async_cancel()
    loop.run_until_complete(main())
    # group by send instant
    groups={}
    for t,data,snap in snaps: groups.setdefault(round(t,6),[]).append((data,snap))
    for t,lst in groups.items():
        ka={}; nq=0
        for i,(data,snap) in enumerate(lst):
            m=DNSIncoming(data)
            if not m.valid: viol.append(('invalid',)); continue
            nq+=len(m.questions)
            tc=bool(m.flags & 0x200)
            if tc != (i<len(lst)-1): viol.append(('tc',t,i,len(lst)))
            for r in m.answers():
                if r.alias.lower() in ka: viol.append(('dup',r.alias))
                ka[r.alias.lower()]=r.ttl
        snap=lst[0][1]; now=t*1000
        exp={a:int((c+ttl*1000-now)/1000) for a,c,ttl in snap if c+ttl*500>now}
        if nq!=1: viol.append(('nq',nq))
        if ka!=exp:
            d1=set(ka)-set(exp); d2=set(exp)-set(ka); d3=[(a,ka[a],exp[a]) for a in ka if a in exp and ka[a]!=exp[a]]
            viol.append(('ka',round(t-1000,3),len(lst),list(d1)[:2],list(d2)[:2],d3[:2]))
    if verbose: print({round(t-1000,3):len(l) for t,l in groups.items()})
    return viol
if __name__=='__main__':
    nb=0
    for s in range(int(sys.argv[1])):
        v=run(s)
        if v:
            nb+=1
            if nb<=5: print('seed',s,v[:3]); run(s,True)
    print('bad',nb)
