"""Probe of the C03 ResponderModel against QueryHandler.async_response (design-time)."""
import asyncio, random, sys
from simlib import *
from zeroconf import ServiceInfo, DNSOutgoing, DNSQuestion, DNSIncoming, DNSPointer
ENUM='_services._dns-sd._udp.local.'
TYPES=['_http._tcp.local.','_Ipp._tcp.local.','_p._sub._http._tcp.local.']
HOSTS=['h1.local.','H2.local.']
def swap(s): return s.swapcase().replace('.LOCAL.','.local.') if False else s.upper() if s.islower() else s.lower()
def run(seed, verbose=False):
    rnd=random.Random(seed); loop,net=setup(); viol=[]; log=[]
    async def main():
        random.seed(seed)
        a=net.mkhost('A','10.0.0.1'); zc=a.azc.zeroconf; await zc.async_wait_for_start()
        reg={}
        def mkinfo(i):
            ty=TYPES[i%3]; base=ty if '_sub' not in ty else '_http._tcp.local.'
            fam=rnd.choice(['4','6','46','44'])
            addrs=[]
            if '4' in fam: addrs.append(bytes([10,0,0,i+1]))
            if fam=='44': addrs.append(bytes([10,0,1,i+1]))
            if '6' in fam: addrs.append(b'\xfe\x80'+b'\0'*13+bytes([i+1]))
            return ServiceInfo(ty,'S%d.%s'%(i,base),8000+i,properties={'i':str(i)},server=rnd.choice(HOSTS),addresses=addrs,
                               host_ttl=rnd.choice([120,8,2]),other_ttl=rnd.choice([4500,40,2]))
        for step in range(rnd.randint(1,10)):
            r=rnd.random(); i=rnd.randrange(5)
            if r<0.35 and i not in reg:
                info=mkinfo(i); reg[i]=info; log.append(('reg',i,info.type,info.server,len(info._ipv4_addresses),len(info._ipv6_addresses)))
                await (await a.azc.async_register_service(info))
            elif r<0.5 and i in reg:
                info=reg.pop(i); log.append(('unreg',i)); await (await a.azc.async_unregister_service(info))
            elif r<0.6 and i in reg:
                info=reg[i]; info.port+=100; log.append(('upd',i)); await (await a.azc.async_update_service(info))
            else:
                # query
                names=[ENUM]+TYPES+HOSTS+['S%d.%s'%(k,'_http._tcp.local.' if k%3!=1 else TYPES[1]) for k in range(5)]+['nope.local.']
                qs=[]
                for _ in range(rnd.randint(1,3)):
                    n=rnd.choice(names)
                    if rnd.random()<0.3: n=n.upper().replace('.LOCAL.','.local.')
                    qs.append((n,rnd.choice([12,1,28,33,16,255,47,99])))
                o=DNSOutgoing(0)
                for n,t in qs: o.add_question(DNSQuestion(n,t,1))
                msg=DNSIncoming(o.packets()[0],('10.0.0.9',5353))
                res=zc.query_handler.async_response([msg],True)
                got={} if res is None else res.ucast
                # model
                exp=set(); nsec_dc=False
                S=list(reg.values())
                for n,t in qs:
                    nl=n.lower()
                    if t==12 and nl==ENUM:
                        for ty in {s.type.lower() for s in S}: exp.add(('ptr',ENUM,ty,4500))
                        continue
                    if t in(12,255):
                        for s in S:
                            if s.type.lower()==nl: exp.add(('ptr',nl,s.name.lower(),s.other_ttl))
                    if t in(1,28):
                        hs=[s for s in S if s.server.lower()==nl]
                        fams=[(bool(s._ipv4_addresses),bool(s._ipv6_addresses)) for s in hs]
                        if len(set(fams))>1: nsec_dc=True
                        for s in hs:
                            lst=s._ipv4_addresses if t==1 else s._ipv6_addresses
                            for ad in lst: exp.add(('addr',nl,t,ad.packed,s.host_ttl))
                            if not lst: exp.add(('nsec',s.host_ttl))
                    if t==255 and any(s.server.lower()==nl for s in S): nsec_dc='any-host'
                    if t in(33,255):
                        for s in S:
                            if s.name.lower()==nl: exp.add(('srv',nl,s.port,s.server.lower(),s.host_ttl))
                    if t in(16,255):
                        for s in S:
                            if s.name.lower()==nl: exp.add(('txt',nl,s.text,s.other_ttl))
                g=set()
                for r_ in got:
                    if r_.type==12: g.add(('ptr',r_.key,r_.alias.lower(),r_.ttl))
                    elif r_.type in(1,28): g.add(('addr',r_.key,r_.type,r_.address,r_.ttl))
                    elif r_.type==33: g.add(('srv',r_.key,r_.port,r_.server.lower(),r_.ttl))
                    elif r_.type==16: g.add(('txt',r_.key,r_.text,r_.ttl))
                    elif r_.type==47: g.add(('nsec',r_.ttl))
                if nsec_dc: g={x for x in g if x[0]!='nsec'}; exp={x for x in exp if x[0]!='nsec'}
                if nsec_dc=='any-host': pass
                if g!=exp: viol.append(('answers',qs,sorted(map(str,g-exp))[:3],sorted(map(str,exp-g))[:3])); return
                for ans,adds in got.items():
                    for ad in adds:
                        pass
    loop.run_until_complete(main()); loop.close()
    if verbose: [print('  ',l) for l in log]
    return viol
if __name__=='__main__':
    nb=0
    for s in range(int(sys.argv[1])):
        v=run(s)
        if v:
            nb+=1
            if nb<=5: print('seed',s,v[:1]); run(s,True)
    print('bad',nb)
