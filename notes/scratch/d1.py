import zeroconf, struct
from zeroconf import DNSOutgoing, DNSIncoming, DNSQuestion, DNSPointer, DNSText
from zeroconf.const import *
from zeroconf._utils.name import service_type_name
# 1: 64-byte label
o=DNSOutgoing(0); o.add_question(DNSQuestion('a'*64+'.local.',12,1)); p=o.packets()[0]
m=DNSIncoming(p); print('64-label: valid',m.valid, m.questions)
# 2: recursion
n=1200
hdr=struct.pack('>6H',0,0x8400,0,1,0,0)
body=b''
# chain: name at offset 12 is pointer to 14, ... 
for i in range(n):
    off=12+2*i+2
    body+=bytes([0xC0|(off>>8), off&0xFF])
body+=b'\x00'+struct.pack('>HHIH',16,1,10,0)
try:
    m=DNSIncoming(hdr+body); print('chain valid',m.valid)
except BaseException as e: print('chain raised',type(e).__name__, len(hdr+body))
# 3
for s in ['_._tcp.local.','_a\n._tcp.local.','x._a\n._tcp.local.']:
    try: print(repr(s),'->',repr(service_type_name(s)))
    except BaseException as e: print(repr(s),'raised',type(e).__name__,e)
# char string 256
from zeroconf import DNSHinfo
o=DNSOutgoing(0x8400); o.add_answer_at_time(DNSHinfo('a.local.',13,1,10,'c'*256,'o'),0)
try: o.packets()
except BaseException as e: print('hinfo256',type(e).__name__)
