import asyncio, random, sys
from simlib import *
from zeroconf import ServiceInfo, DNSOutgoing, DNSQuestion, DNSIncoming
GAPS=[0,1,19,20,21,119,120,121,200,499,500,501,999,1000,1001,1119,1120,1200]
E=0.002
def run(seed, verbose=False):
    rnd=random.Random(seed)
    loop, net = setup(); net.delay=rnd.choice([0.0,0.001,0.05])
    async def main():
        random.seed(seed)
        a=net.mkhost('A','10.0.0.1'); zc=a.azc.zeroconf
        await zc.async_wait_for_start()
        from zeroconf import RecordUpdateListener
        class Spy(RecordUpdateListener):
            def async_update_records(s,zc_,now,recs):
                for r in recs:
                    if r.new.type==12 and r.new.ttl>0: net.sight.append(now/1000)
            def async_update_records_complete(s): pass
        net.sight=[]; zc.async_add_listener(Spy(),None)
        i1=ServiceInfo('_http._tcp.local.','x._http._tcp.local.',80,server='a.local.',addresses=[b'\x0a\x00\x00\x01'])
        await (await a.azc.async_register_service(i1))
        tann=loop.time()
        await asyncio.sleep(rnd.choice([0.003,0.3,0.99,1.0,1.01,5]))
        qs=[]
        for k in range(rnd.randint(1,6)):
            q=DNSOutgoing(0); q.add_question(DNSQuestion('_http._tcp.local.',12,1))
            if rnd.random()<0.3: q.add_question(DNSQuestion('x._http._tcp.local.',16,1))
            pkt=q.packets()[0]+bytes([k])
            qs.append(loop.time()); net.inject(a,pkt,('10.0.0.9',5353))
            g=rnd.choice(GAPS+[rnd.randint(0,1500)]); await asyncio.sleep(g/1000)
        await asyncio.sleep(3)
        return tann,qs
    tann,qs=loop.run_until_complete(main())
    tx=[]  # all multicasts with PTR
    for t,h,addr,data in net.trace:
        m=DNSIncoming(data)
        if not m.is_query() and addr[0]=='224.0.0.251' and any(r.type==12 and r.ttl>0 for r in m.answers()): tx.append(t)
    replies=[t for t in tx if t>tann+1e-6]
    viol=[]
    info=[]
    for tq in qs:
        sight=[t for t in net.sight if t<=tq+1e-9]
        s=max(sight)
        if (tq-s)<1.0-1e-5: info.append((tq,'prot',s))
        elif (tq-s)>1.0+1e-5: info.append((tq,'aggr',s))
        else: info.append((tq,'edge',s))
    for tq,c,s in info:
        if c=='prot': lo,hi=s+1.0,tq+1.2
        elif c=='aggr': lo,hi=tq,tq+0.5
        else: lo,hi=tq,tq+1.2
        if not any(lo-E<=t<=hi+E for t in replies): viol.append(('uncovered',round(tq-1000,3),c,round(s-1000,3)))
    for x in replies:
        ok=False
        for tq,c,s in info:
            if tq>x+E: continue
            if c in('aggr','edge') and tq+0.020-E<=x<=tq+0.5+E: ok=True
            if c in('prot','edge') and s+1.0-E<=x<=tq+1.2+E: ok=True
        if not ok: viol.append(('unjustified',round(x-1000,3)))
    if verbose:
        print('delay',net.delay,'queries',[(round(t-1000,3),c,round(s-1000,3)) for t,c,s in info]); print('replies',[round(t-1000,3) for t in replies])
    return viol
if __name__=='__main__':
    nb=0; kinds={}
    for s in range(int(sys.argv[1])):
        v=run(s)
        if v:
            nb+=1; kinds[v[0][0]]=kinds.get(v[0][0],0)+1
            if nb<=6: print('seed',s,v[:3]); run(s,True)
    print('bad',nb,kinds)
