import asyncio, random
from simlib import *
from zeroconf import ServiceInfo, DNSOutgoing, DNSQuestion, DNSPointer, DNSIncoming, DNSAddress
from zeroconf.asyncio import AsyncServiceBrowser
from zeroconf.const import *
loop, net = setup()
class L:
    def __init__(s): s.ev=[]
    def add_service(s,zc,t,n): s.ev.append((round(loop.time()-1000,3),'add',n))
    def remove_service(s,zc,t,n): s.ev.append((round(loop.time()-1000,3),'rm',n))
    def update_service(s,zc,t,n): pass
def resp(recs):
    o=DNSOutgoing(0x8400)
    for r in recs: o.add_answer_at_time(r,0)
    return o.packets()[0]
async def main():
    random.seed(3)
    b=net.mkhost('B','10.0.0.2')
    zc=b.azc.zeroconf
    await zc.async_wait_for_start()
    # C05: record twice in one datagram, then refresh, then purge
    r=lambda ttl: DNSAddress('h.local.',1,1,ttl,b'\x01\x02\x03\x04')
    net.inject(b, resp([r(20), r(20)]), ('10.0.0.9',5353))
    await asyncio.sleep(15)
    net.inject(b, resp([r(120)]), ('10.0.0.9',5353))
    print('get ttl', zc.cache.get(r(1)).ttl, 'entries ttl', [x.ttl for x in zc.cache.entries_with_name('h.local.')])
    await asyncio.sleep(20)
    print('after 35s: get', zc.cache.get(r(1)), 'entries', zc.cache.entries_with_name('h.local.'))
    # C10
    l=L(); br=AsyncServiceBrowser(zc,'_http._tcp.local.',listener=l)
    t0=loop.time()
    await asyncio.sleep(20)
    net.inject(b, resp([DNSPointer('_http._tcp.local.',12,1,4500,'long._http._tcp.local.')]), ('10.0.0.9',5353))
    await asyncio.sleep(40)
    net.inject(b, resp([DNSPointer('_http._tcp.local.',12,1,1200,'short._http._tcp.local.')]), ('10.0.0.9',5353))
    n0=len(net.trace)
    await asyncio.sleep(5000)
    print([round(t-t0,1) for t,h,a,d in net.trace[n0:]]); print([(round(t+1000-t0,1),e,n) for t,e,n in l.ev])
loop.run_until_complete(main())
