import asyncio, random
from simlib import *
from zeroconf import ServiceInfo, DNSOutgoing, DNSQuestion, DNSPointer, DNSIncoming, DNSAddress
from zeroconf.const import *
def run(dup, mixed):
    loop, net = setup()
    net.delay=0.001
    async def main():
        random.seed(5)
        a=net.mkhost('A','10.0.0.1')
        await a.azc.zeroconf.async_wait_for_start()
        i1=ServiceInfo('_http._tcp.local.','x._http._tcp.local.',80,server='a.local.',addresses=[b'\x0a\x00\x00\x01'], host_ttl=8, other_ttl=40)
        await (await a.azc.async_register_service(i1))
        await asyncio.sleep(20)   # beyond quarter ttl of both
        n0=len(net.trace)
        q=DNSOutgoing(0); q.add_question(DNSQuestion('x._http._tcp.local.',33,1|0x8000))
        if mixed: q.add_question(DNSQuestion('x._http._tcp.local.',16,1))
        pkt=q.packets()[0]
        net.inject(a, pkt, ('10.0.0.9',5353))
        if dup: net.inject(a, pkt, ('10.0.0.9',5353))
        await asyncio.sleep(3)
        dump(net,n0)
    loop.run_until_complete(main())
for mixed in (0,1):
  for dup in (0,1):
    print('--- mixed',mixed,'dup',dup); run(dup,mixed)
