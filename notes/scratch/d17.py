"""Probe of the C05/C06 CacheModel against the real cache (design-time)."""
import asyncio, random, sys
from simlib import *
from zeroconf import DNSOutgoing, DNSPointer, DNSAddress, DNSText, DNSService, DNSNsec, RecordUpdateListener
import os
EXCL_F4=os.environ.get('EXCL_F4')=='1'
NAMES=['h.local.','H.local.','_t._tcp.local.','i._t._tcp.local.']
def mk(rnd):
    k=rnd.randrange(6); fl=0x8000 if rnd.random()<0.4 else 0
    ttl=rnd.choice([0,1,2,120,1124,1125,4500])
    if k==0: return DNSAddress(rnd.choice(NAMES[:2]),1,1|fl,ttl,rnd.choice([b'\1\1\1\1',b'\2\2\2\2']))
    if k==1: return DNSPointer('_t._tcp.local.',12,1|fl,ttl,rnd.choice(['i._t._tcp.local.','I._t._tcp.local.','j._t._tcp.local.']))
    if k==2: return DNSText('i._t._tcp.local.',16,1|fl,ttl,rnd.choice([b'\0',b'\1a']))
    if k==3: return DNSService('i._t._tcp.local.',33,1|fl,ttl,0,0,rnd.choice([80,81]),rnd.choice(['h.local.','H.local.','g.local.']))
    if k==4: return DNSNsec('i._t._tcp.local.',47,1|fl,ttl,'i._t._tcp.local.',[1] if rnd.random()<0.5 else [28])
    return DNSAddress('h.local.',28,1|fl,ttl,b'\xfe\x80'+b'\0'*13+bytes([rnd.choice([1,2])]))
def ident(r):
    base=(r.key,r.type,r.class_)
    if r.type in(1,28): return base+(r.address,)
    if r.type==12: return base+(r.alias.lower(),)
    if r.type==16: return base+(r.text,)
    if r.type==33: return base+(r.priority,r.weight,r.port,r.server.lower())
    if r.type==47: return base+(r.next_name,tuple(r.rdtypes))
def run(seed, verbose=False):
    rnd=random.Random(seed); loop,net=setup(); viol=[]; oplog=[]
    model={}; purged=[]
    async def main():
        b=net.mkhost('B','10.0.0.2'); zc=b.azc.zeroconf; await zc.async_wait_for_start()
        class Spy(RecordUpdateListener):
            def async_update_records(s,zc_,now,recs):
                if recs and all(r.new is r.old for r in recs):
                    exp={i for i,(c,t) in model.items() if c+t*1000<=now}
                    got=[ident(r.new) for r in recs]
                    if set(got)!=exp or len(got)!=len(set(got)): viol.append(('purge',sorted(map(str,set(got)^exp))[:2]))
                    for i in exp: del model[i]
            def async_update_records_complete(s): pass
        zc.async_add_listener(Spy(),None)
        def compare(tag):
            real={}
            for key,store in zc.cache.cache.items():
                for r in store: real.setdefault(ident(r),[]).append((r.created,r.ttl))
            for n in NAMES:
                for r in zc.cache.entries_with_name(n):
                    g=zc.cache.get(r)
                    if g is None or (g.created,g.ttl)!=(r.created,r.ttl): viol.append(('paths disagree',tag,str(ident(r)),(r.created,r.ttl),None if g is None else (g.created,g.ttl)))
            m={i:[(c,t)] for i,(c,t) in model.items()}
            if real!=m:
                d=[(str(i),real.get(i),m.get(i)) for i in set(real)|set(m) if real.get(i)!=m.get(i)]
                viol.append(('state',tag,d[:2]))
        for step in range(rnd.randint(1,12)):
            if rnd.random()<0.6:
                recs=[mk(rnd) for _ in range(rnd.randint(1,3))]
                if rnd.random()<0.3: recs.append(recs[0])
                ids={}
                for r in recs: ids.setdefault(ident(r),set()).add(r.ttl==0)
                if any(len(v)==2 for v in ids.values()): continue   # contradictory datagram excluded
                if EXCL_F4 and len(ids)!=len(recs) and any(i not in model for i in ids): continue
                o=DNSOutgoing(0x8400)
                for r in recs: o.add_answer_at_time(r,0)
                pkt=o.packets()[0]+bytes([step])
                now=loop.time()*1000
                oplog.append(('resp',[(r.name,r.type,r.ttl,r.unique) for r in recs]))
                before=dict(model)
                for r in recs:
                    t=r.ttl
                    if r.type==12 and 0<t<1125: t=1125.0
                    if t: model[ident(r)]=(now,t)
                    elif ident(r) in model: del model[ident(r)]
                inpkt={ident(r) for r in recs}
                for r in recs:
                    if r.unique:
                        for i,(c,t) in before.items():
                            if i[:3]==(r.key,r.type,r.class_) and now-c>1000 and i not in inpkt and i in model: model[i]=(now,1)
                net.inject(b,pkt,('10.0.0.9',5353))
                compare(step)
            else:
                ms=rnd.choice([0,1,999,1000,1001,1999,2001,9999,10001,120001,1125000])
                oplog.append(('tick',ms)); await asyncio.sleep(ms/1000); compare(step)
            if viol: return
    loop.run_until_complete(main()); loop.close()
    if verbose: [print('  ',o) for o in oplog]
    return viol
if __name__=='__main__':
    nb=0; kinds={}
    for s in range(int(sys.argv[1])):
        v=run(s)
        if v:
            nb+=1; kinds[v[0][0]]=kinds.get(v[0][0],0)+1
            if nb<=4: print('seed',s,v[:2]); run(s,True)
    print('bad',nb,kinds)
