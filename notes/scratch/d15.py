import asyncio, random, sys
from simlib import *
from zeroconf import ServiceInfo, DNSIncoming
from zeroconf.asyncio import AsyncServiceBrowser, AsyncServiceInfo
TYPES=['_http._tcp.local.','_ipp._tcp.local.']
def run(seed, drop=None, verbose=False):
    rnd=random.Random(seed)
    loop, net = setup()
    cnt=[0]
    drnd=random.Random(seed*7+1)
    def sent(host, tr, data, addr):
        t=net.loop.time(); idx=len(net.trace); net.trace.append((t, host.name, addr, data))
        if drop is not None and idx==drop: return
        for h in net.hosts:
            if addr[0]=='224.0.0.251' or h.ip==addr[0]:
                for tr2,proto in h.endpoints:
                    if tr2.closed: continue
                    d=drnd.uniform(0,0.1) if h is not host else 0.0002
                    net.loop.call_later(d, proto.datagram_received, data, (host.ip, 5353))
                    if drnd.random()<0.1: net.loop.call_later(d+drnd.uniform(0,0.05), proto.datagram_received, data, (host.ip, 5353))
    net.sent=sent
    state={'reg':{}, 'browsers':[], 'lookups':[]}
    async def main():
        random.seed(seed)
        nh=rnd.randint(2,4)
        hosts=[net.mkhost('H%d'%i,'10.0.0.%d'%(i+1)) for i in range(nh)]
        for h in hosts: await h.azc.zeroconf.async_wait_for_start()
        ops=[]
        ns=rnd.randint(1,5)
        for i in range(ns):
            ops.append((rnd.uniform(0,20),'reg',i))
            if rnd.random()<0.4: ops.append((rnd.uniform(20,30),'unreg',i))
        for j in range(rnd.randint(1,3)): ops.append((rnd.uniform(0,30),'browse',j))
        ops.sort()
        infos={}
        tlast=0
        async def do(op):
            kind=op[1]
            if kind=='reg':
                i=op[2]; h=hosts[i%nh]; ty=TYPES[i%2]
                info=ServiceInfo(ty,'s%d.%s'%(i,ty),8000+i,properties={'k':str(i)},server='h%d.local.'%(i%nh),addresses=[bytes([10,0,0,(i%nh)+1])])
                infos[i]=(h,info); 
                await (await h.azc.async_register_service(info)); state['reg'][i]=info
            elif kind=='unreg':
                i=op[2]
                if i in state['reg']:
                    h,info=infos[i]; del state['reg'][i]
                    await (await h.azc.async_unregister_service(info))
            elif kind=='browse':
                h=hosts[rnd.randrange(nh)]; ty=TYPES[op[2]%2]
                live=set(); log=[]
                class L:
                    def add_service(s,zc,t,n):
                        log.append(('add',n)); live.add(n.lower())
                        async def lk():
                            inf=AsyncServiceInfo(t,n); ok=await inf.async_request(zc,3000)
                            state['lookups'].append((loop.time(),n,ok,inf.port,inf.server,inf.addresses))
                        asyncio.ensure_future(lk())
                    def remove_service(s,zc,t,n): log.append(('rm',n)); live.discard(n.lower())
                    def update_service(s,zc,t,n): pass
                br=AsyncServiceBrowser(h.azc.zeroconf,ty,listener=L()); state['browsers'].append((h.name,ty,live,log,br))
        tasks=[]
        t0=loop.time()
        for op in ops:
            await asyncio.sleep(max(0,t0+op[0]-loop.time()))
            tasks.append(asyncio.ensure_future(do(op)))
        await asyncio.gather(*tasks)
        tl=loop.time()
        await asyncio.sleep(20)
        viol=[]
        for hn,ty,live,log,br in state['browsers']:
            exp={inf.name.lower() for inf in state['reg'].values() if inf.type==ty}
            if live!=exp: viol.append(('diverged',hn,ty,sorted(live),sorted(exp)))
        for t,n,ok,port,server,addrs in state['lookups']:
            if not ok: viol.append(('lookup failed',n,round(t-t0,2)))
        return viol
    v=loop.run_until_complete(main())
    n=len(net.trace); errs=net.errs
    loop.close()
    return v+[('err',str(e.get('exception'))) for e in errs], n
if __name__=='__main__':
    nb=0; tot=0
    for s in range(int(sys.argv[1])):
        v,n=run(s); tot+=1
        if v:
            nb+=1
            if nb<=5: print('seed',s,'nodrop',v[:3])
            continue
        for k in random.Random(s).sample(range(n), min(6,n)):
            v2,_=run(s,drop=k); tot+=1
            if v2:
                nb+=1
                if nb<=8: print('seed',s,'drop',k,v2[:3])
    print('bad',nb,'of',tot)
