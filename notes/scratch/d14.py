import asyncio, random, sys
from simlib import *
import simlib
from zeroconf import ServiceInfo, DNSIncoming, NonUniqueNameException, RecordUpdateListener
T='_http._tcp.local.'
def run(seed, verbose=False):
    rnd=random.Random(seed)
    loop, net = setup()
    # per-datagram random delay
    def sent(host, tr, data, addr):
        t=net.loop.time(); net.trace.append((t, host.name, addr, data))
        for h in net.hosts:
            if addr[0]=='224.0.0.251' or h.ip==addr[0]:
                for tr2,proto in h.endpoints:
                    if tr2.closed: continue
                    d=rnd.choice([0,0.001,0.05,0.1,0.149,0.15,rnd.uniform(0,0.15)]) if h is not host else 0.0005
                    net.loop.call_later(d, proto.datagram_received, data, (host.ip, 5353))
    net.sent=sent
    res={}
    async def main():
        random.seed(seed)
        a=net.mkhost('A','10.0.0.1'); await a.azc.zeroconf.async_wait_for_start()
        order=rnd.random()<0.5
        if order: b=net.mkhost('B','10.0.0.2'); await b.azc.zeroconf.async_wait_for_start()
        ia=ServiceInfo(T,'x.'+T,80,server='a.local.',addresses=[b'\x0a\x00\x00\x01'])
        await (await a.azc.async_register_service(ia))
        await asyncio.sleep(rnd.choice([0.2,1.5,5,2000]))
        if not order: b=net.mkhost('B','10.0.0.2'); await b.azc.zeroconf.async_wait_for_start()
        zb=b.azc.zeroconf
        learn=[]
        class Spy(RecordUpdateListener):
            def async_update_records(s,zc,now,recs):
                for r in recs:
                    if r.new.type==12 and r.new.ttl>0 and r.new.alias=='x.'+T: learn.append(loop.time())
            def async_update_records_complete(s): pass
        zb.async_add_listener(Spy(),None)
        pre = zb.cache.current_entry_with_name_and_alias(T,'x.'+T) is not None
        ib=ServiceInfo(T,'x.'+T,81,server='b.local.',addresses=[b'\x0a\x00\x00\x02'])
        allow=rnd.random()<0.5
        t0=loop.time(); n0=len(net.trace)
        try:
            await (await b.azc.async_register_service(ib, allow_name_change=allow)); out='ok:'+ib.name
        except NonUniqueNameException: out='nonunique'
        await asyncio.sleep(2)
        res.update(t0=t0,n0=n0,out=out,pre=pre,learn=learn,allow=allow)
    loop.run_until_complete(main())
    t0=res['t0']
    probes=[]; ann=[]
    for t,h,addr,data in net.trace[res['n0']:]:
        if h!='B': continue
        m=DNSIncoming(data)
        if m.is_query() and m.num_authorities: probes.append((round(t-t0,4), [r.alias for r in m.answers()][0]))
        elif not m.is_query(): ann.append((round(t-t0,4), sorted({getattr(r,'alias',None) for r in m.answers() if r.type==12 and r.ttl>0})))
    viol=[]
    px=[t for t,n in probes if n=='x.'+T]
    t3=px[2] if len(px)>=3 else None
    tl=0 if res['pre'] else (min(res['learn'])-t0 if res['learn'] else None)
    must = tl is not None and (t3 is None or tl < t3-0.002)
    if must and res['out']=='ok:x.'+T: viol.append(('undetected',tl,px,res['out']))
    if must and any('x.'+T in al for t,al in ann): viol.append(('announced conflicting',))
    if not res['allow'] and res['out'].startswith('ok') and res['out']!='ok:x.'+T: viol.append(('renamed w/o allow',))
    if verbose: print(res['out'],'pre',res['pre'],'learn',tl,'probes',probes,'ann',ann[:4])
    return viol, res['out'], must
if __name__=='__main__':
    nb=0; outs={}
    for s in range(int(sys.argv[1])):
        v,o,must=run(s); outs[(o,must)]=outs.get((o,must),0)+1
        if v:
            nb+=1
            if nb<=5: print('seed',s,v[:3]); run(s,True)
    print('bad',nb,outs)
