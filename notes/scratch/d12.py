import asyncio, random, sys
from simlib import *
from zeroconf import DNSOutgoing, DNSPointer, DNSIncoming
from zeroconf.asyncio import AsyncServiceBrowser
T='_http._tcp.local.'
E=0.003
def run(seed, verbose=False):
    rnd=random.Random(seed)
    loop, net = setup()
    delay=rnd.choice([1,2,10,60])
    ev=[]
    class L:
        def add_service(s,zc,t,n): ev.append((loop.time(),'add',n.lower()))
        def remove_service(s,zc,t,n): ev.append((loop.time(),'rm',n.lower()))
        def update_service(s,zc,t,n): pass
    segs=[]  # [inst, c, T, end(or None)]
    live={}
    async def main():
        random.seed(seed)
        b=net.mkhost('B','10.0.0.2'); zc=b.azc.zeroconf
        await zc.async_wait_for_start()
        t0=loop.time()
        br=AsyncServiceBrowser(zc,T,listener=L(),delay=delay*1000)
        def inject(inst, ttl):
            o=DNSOutgoing(0x8400); o.add_answer_at_time(DNSPointer(T,12,1,ttl,inst),0)
            net.inject(b,o.packets()[0]+bytes([rnd.randrange(256)]),('10.0.0.9',5353))
        for _ in range(rnd.randint(1,10)):
            r=rnd.random()
            inst=rnd.choice(['a','b','c','d'])+'.'+T
            now=loop.time()
            # expire bookkeeping
            for i,(c,tt) in list(live.items()):
                if c+tt<=now: del live[i]
            if r<0.55:
                ttl=rnd.choice([1,1125,1200,2000,4500,7200])
                inject(inst, ttl); eff=max(ttl,1125)
                if inst in live:
                    for s in segs:
                        if s[0]==inst and s[3] is None: s[3]=now
                live[inst]=(now,eff); segs.append([inst,now,eff,None])
            elif r<0.65 and inst in live:
                inject(inst,0)
                for s in segs:
                    if s[0]==inst and s[3] is None: s[3]=now
                del live[inst]
            else:
                await asyncio.sleep(rnd.choice([0.01,1,5,14,20,60,300,900,1000,3000,rnd.uniform(0,5000)]))
        await asyncio.sleep(7200*1.2+100)
        await br.async_cancel()
        return t0
    t0=loop.run_until_complete(main())
    qt=sorted({round(t,6) for t,h,a,d in net.trace})
    viol=[]
    # startup
    post=[t for t in qt if t>t0+14.2]
    st=[t for t in qt if t<=t0+14.2]
    if len(st)!=4: viol.append(('startup',[round(t-t0,3) for t in st]))
    allq=qt
    for x,y in zip(post,post[1:]):
        if y-x<delay-E: viol.append(('spacing',round(x-t0,3),round(y-t0,3)))
    if post and st and post[0]-st[-1]<delay-E: viol.append(('spacing0',))
    # liveness
    used=set()
    just=[]
    for inst,c,TT,end in segs:
        e=c+TT; u=end if end is not None else e
        a=c+0.75*TT; k=0
        while a<min(e,u):
            win=(a-delay-E,a+delay+E); just.append(win)
            m=[t for t in allq if win[0]<=t<=win[1]]
            if a< u-delay-E:
                if not m: viol.append(('missing',inst[0],round(c-t0,1),TT,k,round(a-t0,1))); break
            if not m: break
            s=m[0] if k==0 else min(m,key=lambda t:abs(t-a))
            a=s+0.1*TT; k+=1
    for t in post:
        if not any(lo<=t<=hi for lo,hi in just): viol.append(('unjustified',round(t-t0,1)))
    if verbose:
        print('delay',delay,'segs',[(i[0],round(c-t0,1),TT,None if e is None else round(e-t0,1)) for i,c,TT,e in segs]); print('queries',[round(t-t0,1) for t in qt]); print([(round(t-t0,1),k,n[0]) for t,k,n in ev])
    return viol
if __name__=='__main__':
    nb=0; kinds={}
    for s in range(int(sys.argv[1])):
        v=run(s)
        if v:
            nb+=1; kinds[v[0][0]]=kinds.get(v[0][0],0)+1
            if nb<=5: print('seed',s,v[:3]); run(s,True)
    print('bad',nb,kinds)
