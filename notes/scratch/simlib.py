import asyncio, time, selectors, socket, random, sys
import zeroconf, zeroconf._core as core
class VClock:
    def __init__(self): self.t = 1000.0
    def monotonic(self): return self.t
class VSelector(selectors.BaseSelector):
    def __init__(self, clock): self.clock=clock; self._map={}
    def register(self, fileobj, events, data=None):
        k=selectors.SelectorKey(fileobj, fileobj if isinstance(fileobj,int) else fileobj.fileno(), events, data); self._map[fileobj]=k; return k
    def unregister(self, fileobj): return self._map.pop(fileobj)
    def modify(self, fileobj, events, data=None): self.unregister(fileobj); return self.register(fileobj, events, data)
    def select(self, timeout=None):
        if timeout is None: raise RuntimeError("deadlock: no timers")
        if timeout>0: self.clock.t += timeout
        return []
    def get_map(self): return self._map
    def close(self): pass
class FakeSock:
    def __init__(self, family, addr, n): self.family=family; self._addr=addr; self._n=n
    def fileno(self): return self._n
    def getsockname(self): return self._addr
    def close(self): pass
class FakeTransport(asyncio.DatagramTransport):
    def __init__(self, net, host, sock, proto): super().__init__(); self.net=net; self.host=host; self.sock=sock; self.proto=proto; self.closed=False
    def get_extra_info(self, name, default=None): return self.sock if name=='socket' else default
    def sendto(self, data, addr=None):
        if self.closed: return
        self.net.sent(self.host, self, bytes(data), addr)
    def close(self): self.closed=True
    def is_closing(self): return self.closed
class VLoop(asyncio.SelectorEventLoop):
    def __init__(self, clock, net):
        super().__init__(VSelector(clock)); self.clock=clock; self.net=net
    def time(self): return self.clock.t
    async def create_datagram_endpoint(self, protocol_factory, local_addr=None, remote_addr=None, *, sock=None, **kw):
        proto = protocol_factory()
        tr = FakeTransport(self.net, sock.host, sock, proto)
        sock.host.endpoints.append((tr, proto))
        proto.connection_made(tr)
        return tr, proto
class Host:
    def __init__(self, name, ip): self.name=name; self.ip=ip; self.endpoints=[]
class Net:
    def __init__(self): self.hosts=[]; self.trace=[]; self.loop=None; self.delay=0.001
    def sent(self, host, tr, data, addr):
        t=self.loop.time(); self.trace.append((t, host.name, addr, data))
        for h in self.hosts:
            if addr[0]=='224.0.0.251' or h.ip==addr[0]:
                for tr2,proto in h.endpoints:
                    if tr2.closed: continue
                    if addr[0]!='224.0.0.251' and addr[1]!=5353: continue
                    self.loop.call_later(self.delay, proto.datagram_received, data, (host.ip, 5353))
    def inject(self, host, data, src):
        for tr,proto in host.endpoints: proto.datagram_received(data, src)
def setup():
    clock=VClock(); time.monotonic=clock.monotonic
    net=Net(); loop=VLoop(clock, net); net.loop=loop
    asyncio.set_event_loop(loop)
    cur=[None]
    def fake_create_sockets(interfaces, unicast, ip_version, apple_p2p=False):
        h=cur[0]; s=FakeSock(socket.AF_INET,(h.ip,5353),10+len(net.hosts)); s.host=h
        return s,[s]
    core.create_sockets=fake_create_sockets
    def mkhost(name, ip):
        from zeroconf.asyncio import AsyncZeroconf
        h=Host(name, ip); net.hosts.append(h); cur[0]=h; h.azc=AsyncZeroconf(); return h
    net.mkhost=mkhost
    errs=[]
    loop.set_exception_handler(lambda l,ctx: errs.append(ctx))
    net.errs=errs
    return loop, net
def dump(net, frm=0):
    from zeroconf import DNSIncoming
    for t,h,addr,data in net.trace[frm:]:
        m=DNSIncoming(data)
        print(round(t-1000,3),h,addr,'Q' if m.is_query() else 'R', [ (q.name,q.type,q.unique) for q in m.questions], [(r.name,r.type,r.ttl) for r in m.answers()])
