import asyncio, random, sys, struct, traceback
from simlib import *
from zeroconf import ServiceInfo, DNSIncoming, DNSOutgoing, DNSQuestion, DNSPointer, DNSText, DNSService, DNSAddress, DNSNsec, DNSHinfo
from zeroconf.asyncio import AsyncServiceBrowser, AsyncServiceInfo
T='_http._tcp.local.'
def valid_msgs(rnd):
    out=[]
    q=DNSOutgoing(0); q.add_question(DNSQuestion(T,12,1)); q.add_question(DNSQuestion('x.'+T,33,1|0x8000)); q.add_question(DNSQuestion('a.local.',255,1)); out.append(q.packets()[0])
    q=DNSOutgoing(0x200); q.add_question(DNSQuestion(T,12,1)); q.add_answer_at_time(DNSPointer(T,12,1,4500,'x.'+T),0); out.append(q.packets()[0])
    r=DNSOutgoing(0x8400)
    for rec in [DNSPointer(T,12,1,4500,'y.'+T), DNSService('y.'+T,33,0x8001,120,0,0,80,'b.local.'), DNSText('y.'+T,16,0x8001,4500,b'\x03a=b'), DNSAddress('b.local.',1,0x8001,120,b'\x0a\x00\x00\x02'), DNSAddress('b.local.',28,0x8001,120,b'\xfe\x80'+b'\0'*13+b'\x01'), DNSNsec('y.'+T,47,0x8001,120,'y.'+T,[1,28]), DNSHinfo('b.local.',13,0x8001,120,'cpu','os')]:
        r.add_answer_at_time(rec,0)
    out.append(r.packets()[0])
    q=DNSOutgoing(0); q.add_question(DNSQuestion(T,12,1|0x8000)); q.add_authorative_answer(DNSPointer(T,12,1,4500,'x.'+T)); out.append(q.packets()[0])
    return out
def mutate(rnd, base):
    b=bytearray(rnd.choice(base))
    for _ in range(rnd.randint(1,4)):
        k=rnd.random()
        if k<0.3 and b: i=rnd.randrange(len(b)); b[i]^=1<<rnd.randrange(8)
        elif k<0.5 and b: i=rnd.randrange(len(b)); b[i]=rnd.choice([0,1,0x3f,0x40,0x7f,0xbf,0xc0,0xc1,0xff,12])
        elif k<0.65 and b: del b[rnd.randrange(len(b)):]
        elif k<0.8: i=rnd.randrange(len(b)+1); b[i:i]=bytes(rnd.randrange(256) for _ in range(rnd.randint(1,8)))
        elif k<0.9 and len(b)>12: i=rnd.choice([4,5,6,7,8,9,10,11]); b[i]=rnd.choice([0,1,2,5,255])
        else:
            o=bytearray(rnd.choice(base)); i=rnd.randrange(len(b)+1); b[i:]=o[rnd.randrange(len(o)):]
    return bytes(b)
buckets={}
def run(seed):
    rnd=random.Random(seed)
    loop, net = setup()
    async def main():
        random.seed(seed)
        a=net.mkhost('A','10.0.0.1'); zc=a.azc.zeroconf; await zc.async_wait_for_start()
        info=ServiceInfo(T,'x.'+T,80,properties={'a':'b'},server='a.local.',addresses=[b'\x0a\x00\x00\x01'])
        await (await a.azc.async_register_service(info))
        adds=[]
        class L:
            def add_service(s,zc,t,n): adds.append(n)
            def remove_service(s,zc,t,n): pass
            def update_service(s,zc,t,n): pass
        br=AsyncServiceBrowser(zc,T,listener=L())
        lk=asyncio.ensure_future(AsyncServiceInfo(T,'zz.'+T).async_request(zc,3000))
        base=valid_msgs(rnd)
        for _ in range(rnd.randint(5,40)):
            k=rnd.random()
            if k<0.6: data=mutate(rnd,base)
            elif k<0.75: data=bytes(rnd.randrange(256) for _ in range(rnd.choice([0,1,11,12,13,30,200])))
            elif k<0.85: data=rnd.choice(base)
            else: data=rnd.choice(base)+bytes(9000)
            src=('10.0.0.9', rnd.choice([5353,5353,40000]))
            tr,proto=a.endpoints[0]
            loop.call_soon(proto.datagram_received, data, src)
            await asyncio.sleep(rnd.choice([0,0,0.001,0.1,0.6,1.1]))
        await asyncio.sleep(3); await lk
        await br.async_cancel(); await a.azc.async_close()
    loop.run_until_complete(main())
    for e in net.errs:
        ex=e.get('exception'); 
        tb=traceback.extract_tb(ex.__traceback__) if ex else []
        fr=[f for f in tb if '/zeroconf/' in f.filename]
        key=(type(ex).__name__, fr[-1].filename.split('/')[-1]+':'+str(fr[-1].lineno) if fr else '?', fr[0].name if fr else '?')
        buckets.setdefault(key,[]).append(seed)
    loop.close()
for s in range(int(sys.argv[1])): run(s)
for k,v in buckets.items(): print(k,len(v),v[:5])
print('done')
