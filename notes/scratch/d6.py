import asyncio, random, sys
from simlib import *
from zeroconf import DNSOutgoing, DNSPointer, DNSService, DNSText, DNSAddress
from zeroconf.asyncio import AsyncServiceBrowser
T='_http._tcp.local.'
INST=['a._http._tcp.local.','A._http._tcp.local.','b._http._tcp.local.','c._http._tcp.local.']
def run(seed):
    rnd=random.Random(seed)
    loop, net = setup()
    ev=[]; bad=[]
    class L:
        def add_service(s,zc,t,n):
            ev.append(('add',n.lower()))
            if not any(r.type==12 and r.alias.lower()==n.lower() for r in zc.cache.entries_with_name(t)): bad.append(('notincache',n))
        def remove_service(s,zc,t,n): ev.append(('rm',n.lower()))
        def update_service(s,zc,t,n): pass
    async def main():
        random.seed(seed)
        b=net.mkhost('B','10.0.0.2'); zc=b.azc.zeroconf
        await zc.async_wait_for_start()
        br=AsyncServiceBrowser(zc,T,listener=L())
        ops=[]
        for _ in range(rnd.randint(1,25)):
            if rnd.random()<0.6:
                recs=[]; used=set()
                for _ in range(rnd.randint(1,3)):
                    i=rnd.choice(INST)
                    if i.lower() in used: continue
                    used.add(i.lower())
                    ttl=rnd.choice([0,1,2,1125,4500]); fl=rnd.random()<0.2
                    recs.append(DNSPointer(T,12,1|(0x8000 if fl else 0),ttl,i))
                    if rnd.random()<0.3: recs.append(DNSText(i,16,0x8001,4500,b'\x00'))
                o=DNSOutgoing(0x8400)
                for r in recs: o.add_answer_at_time(r,0)
                ops.append(('resp',[(r.name,r.type,r.ttl,getattr(r,'alias',None),r.unique) for r in recs]))
                net.inject(b,o.packets()[0],('10.0.0.9',5353))
            else:
                ms=rnd.choice([0,1,500,999,1001,9999,10001,1125000,4500000,rnd.randint(0,20000)])
                ops.append(('tick',ms)); await asyncio.sleep(ms/1000)
            await asyncio.sleep(0)
            live=set(); 
            for k,n in ev:
                if k=='add':
                    if n in live: bad.append(('dbl add',n))
                    live.add(n)
                else:
                    if n not in live: bad.append(('rm w/o add',n))
                    live.discard(n)
            cache={r.alias.lower() for r in zc.cache.entries_with_name(T) if r.type==12}
            if live!=cache: bad.append(('mismatch',sorted(live),sorted(cache)))
            if bad or net.errs: return ops
        await br.async_cancel(); await b.azc.async_close()
        return None
    r=loop.run_until_complete(main())
    loop.close()
    return r,bad,net.errs
nb=0
for s in range(int(sys.argv[1])):
    r,bad,errs=run(s)
    if bad or errs:
        nb+=1
        if nb<=3: print('seed',s,bad[:2],errs[:1]); [print('  ',o) for o in r]
print('bad',nb)
