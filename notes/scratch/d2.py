import asyncio, random
from simlib import *
from zeroconf import ServiceInfo, DNSOutgoing, DNSQuestion, DNSPointer, DNSIncoming, DNSAddress
from zeroconf.asyncio import AsyncServiceBrowser
from zeroconf.const import *
loop, net = setup()
class L:
    def __init__(s): s.ev=[]
    def add_service(s,zc,t,n): s.ev.append((round(loop.time()-1000,3),'add',n))
    def remove_service(s,zc,t,n): s.ev.append((round(loop.time()-1000,3),'rm',n))
    def update_service(s,zc,t,n): pass
async def main():
    random.seed(3)
    a=net.mkhost('A','10.0.0.1'); b=net.mkhost('B','10.0.0.2')
    await a.azc.zeroconf.async_wait_for_start(); await b.azc.zeroconf.async_wait_for_start()
    i1=ServiceInfo('_http._tcp.local.','x._http._tcp.local.',80,server='a.local.',addresses=[b'\x0a\x00\x00\x01'])
    i2=ServiceInfo('_ipp._tcp.local.','y._ipp._tcp.local.',81,server='a.local.',addresses=[b'\x0a\x00\x00\x01'])
    await (await a.azc.async_register_service(i1)); await (await a.azc.async_register_service(i2))
    await asyncio.sleep(10)
    l=L(); br=AsyncServiceBrowser(b.azc.zeroconf,'_http._tcp.local.',listener=l)
    await asyncio.sleep(20)
    # C08: query then immediately unregister
    n0=len(net.trace)
    q=DNSOutgoing(0); q.add_question(DNSQuestion('_http._tcp.local.',12,1)); 
    net.inject(a, q.packets()[0], ('10.0.0.9',5353))
    await (await a.azc.async_unregister_service(i1))
    t_done=loop.time()-1000
    await asyncio.sleep(3)
    print('unregister done at',t_done); dump(net,n0); print(l.ev)
    # C03: enumeration after last instance of type removed
    n0=len(net.trace)
    q=DNSOutgoing(0); q.add_question(DNSQuestion('_services._dns-sd._udp.local.',12,1));
    net.inject(a, q.packets()[0], ('10.0.0.9',5353)); await asyncio.sleep(2); dump(net,n0)
    # C15: legacy unicast w/ invalid utf-8 label
    n0=len(net.trace)
    import struct
    lab=b'\xff'*40
    pkt=struct.pack('>6H',7,0,2,0,0,0)+bytes([len(lab)])+lab+b'\x05local\x00'+struct.pack('>HH',12,1)+b'\x04_ipp\x04_tcp\x05local\x00'+struct.pack('>HH',12,1)
    net.inject(a, pkt, ('10.0.0.9',40000)); await asyncio.sleep(2); dump(net,n0); print('errs',[ (e.get('message'), repr(e.get('exception'))) for e in net.errs])
loop.run_until_complete(main())
