#!/bin/sh
# run every registered quick (or thorough) check, 4 at a time; evidence is (re)written by the checks themselves
cd "$(dirname "$0")/.." || exit 2
TIER="${1:-quick}"
IDS=$(/venv/bin/python -c "import json; print(' '.join(c['property_id'] for c in json.load(open('MANIFEST.json'))['checks']))")
echo $IDS | tr ' ' '\n' | xargs -P 4 -I{} sh -c "./check {} --tier $TIER > /tmp/runall-{}.log 2>&1; echo {} rc=\$? \$(grep -c '^VIOLATION' /tmp/runall-{}.log) \$(tail -n 2 /tmp/runall-{}.log | head -n 1 | cut -c1-100)"
