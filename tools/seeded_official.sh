#!/bin/sh
# usage: tools/seeded_official.sh <name> <PROP> [more PROPs]
# Runs the quick checks against /repo's current HEAD plus seeded/<name>/patch.diff, in a throw-away worktree of /repo under /tmp
# (same content as `git -C /repo apply` would give, but /repo itself stays untouched, so several can run side by side).
NAME="$1"; shift
cd "$(dirname "$0")/.." || exit 2
WK=/tmp/wk-$NAME
git -C /repo worktree remove --force $WK >/dev/null 2>&1
git -C /repo worktree add --detach $WK HEAD >/dev/null 2>&1 || { echo "$NAME: cannot create worktree"; exit 2; }
if ! git -C $WK apply /verif/seeded/$NAME/patch.diff 2>/tmp/seeded-$NAME-apply.log; then
  echo "$NAME: patch does not apply to the current HEAD ($(head -c 150 /tmp/seeded-$NAME-apply.log | tr '\n' ' '))"
  git -C /repo worktree remove --force $WK; exit 3
fi
DEMO=$(ls seeded/$NAME/demo_*.py | head -1)
PYTHONPATH=$WK/src timeout 120 /venv/bin/python $DEMO > /tmp/seeded-$NAME-demo-with.log 2>&1; echo "$NAME demo with change on HEAD: exit=$? (expect 1)"
for P in "$@"; do
  ./check $P --no-evidence --src $WK/src > /tmp/seeded-$NAME-$P.log 2>&1
  echo "$NAME $P rc=$? evals=$(grep -oE 'evaluations=[0-9]+' /tmp/seeded-$NAME-$P.log | tail -1) $(grep '^violation' /tmp/seeded-$NAME-$P.log | head -1 | cut -c1-170)"
done
git -C /repo worktree remove --force $WK
