#!/bin/sh
# sequential run of every registered check in the given tier (thorough tiers use 16 worker processes each)
cd "$(dirname "$0")/.." || exit 2
TIER="${1:-thorough}"; shift
IDS="${*:-$(/venv/bin/python -c "import json; print(' '.join(c['property_id'] for c in json.load(open('MANIFEST.json'))['checks']))")}"
for p in $IDS; do
  ./check $p --tier $TIER $EXTRA > /tmp/runseq-$p.log 2>&1
  echo "$p rc=$? $(grep -c '^VIOLATION' /tmp/runseq-$p.log) $(grep -E '^C[0-9]+ tier' /tmp/runseq-$p.log | cut -c1-120)"
done
