#!/venv/bin/python
"""Sensitivity run: apply hand-written mutants to a scratch copy of /repo/src and run the quick check.

usage: tools/mutate.py [--only C01,C14] [--ids m1,m2] [--examples N] [--jobs 8] [--suite]
Mutants live in tools/mutants.py as dicts {id, props, file, old, new, note}.
Not a registered check; results are tabulated into SENSITIVITY.md by hand/--write.
"""
from __future__ import annotations

import argparse
import json
import os
import shutil
import subprocess
import sys
import time
from concurrent.futures import ThreadPoolExecutor

HERE = os.path.dirname(os.path.abspath(__file__))
VERIF = os.path.dirname(HERE)
sys.path.insert(0, HERE)


def apply(mut, root, prop=''):
    dst = os.path.join(root, f"zc-mut-{mut['id']}-{prop}")
    shutil.rmtree(dst, ignore_errors=True)
    shutil.copytree('/repo/src', os.path.join(dst, 'src'))
    edits = mut.get('edits') or [mut]
    for e in edits:
        p = os.path.join(dst, 'src', 'zeroconf', e['file'])
        s = open(p).read()
        if s.count(e['old']) != 1:
            raise SystemExit(f"mutant {mut['id']}: pattern occurs {s.count(e['old'])} times in {e['file']}")
        open(p, 'w').write(s.replace(e['old'], e['new']))
    return dst


def run_one(mut, prop, examples, root, seed):
    try:
        dst = apply(mut, root, prop)
    except SystemExit as e:       # the mutated code has changed since the mutant was written
        return {'id': mut['id'], 'prop': prop, 'rc': 3, 'wall': 0.0, 'what': str(e)[:160], 'note': mut.get('note', '')}
    t0 = time.time()
    cmd = [os.path.join(VERIF, 'check'), prop, '--no-evidence', '--src', os.path.join(dst, 'src')]
    if examples:
        cmd += ['--examples', str(examples)]
    env = dict(os.environ, VERIF_SEED=str(seed))
    r = subprocess.run(cmd, capture_output=True, text=True, env=env)
    dt = time.time() - t0
    shutil.rmtree(dst, ignore_errors=True)
    viol = [l for l in r.stdout.splitlines() if l.startswith('violation:')]
    return {'id': mut['id'], 'prop': prop, 'rc': r.returncode, 'wall': round(dt, 1),
            'what': (viol[0][:160] if viol else (r.stderr.strip().splitlines()[-1][:160] if r.returncode == 2 and r.stderr.strip() else '')),
            'note': mut.get('note', '')}


def main():
    ap = argparse.ArgumentParser()
    ap.add_argument('--only')
    ap.add_argument('--ids')
    ap.add_argument('--examples', type=int)
    ap.add_argument('--jobs', type=int, default=8)
    ap.add_argument('--seed', type=int, default=1)
    ap.add_argument('--root', default='/tmp')
    ap.add_argument('--json')
    a = ap.parse_args()
    from mutants import MUTANTS

    jobs = []
    for m in MUTANTS:
        if a.ids and m['id'] not in a.ids.split(','):
            continue
        for p in m['props']:
            if a.only and p not in a.only.split(','):
                continue
            jobs.append((m, p))
    with ThreadPoolExecutor(a.jobs) as ex:
        res = list(ex.map(lambda j: run_one(j[0], j[1], a.examples, a.root, a.seed), jobs))
    for r in res:
        verdict = {0: 'SURVIVED', 1: 'killed', 2: 'HARNESS-ERROR', 3: 'PATTERN-GONE'}.get(r['rc'], str(r['rc']))
        print(f"{r['prop']} {r['id']:<28} {verdict:<13} {r['wall']:>6}s  {r['what']}")
    if a.json:
        json.dump(res, open(a.json, 'w'), indent=1)


if __name__ == '__main__':
    main()
