#!/bin/sh
# usage: tools/seeds.sh "C01 C02 ..." "2 3 4 5 6"   -- quietness sweep on the unchanged tree (no evidence written)
cd "$(dirname "$0")/.." || exit 2
PROPS="$1"; SEEDS="${2:-2 3 4 5 6}"
for p in $PROPS; do
  for s in $SEEDS; do
    ( VERIF_SEED=$s ./check $p --no-evidence > /tmp/seeds-$p-$s.log 2>&1; echo "$p seed=$s rc=$? $(grep -c VIOLATION /tmp/seeds-$p-$s.log) $(tail -n 2 /tmp/seeds-$p-$s.log | head -n 1 | cut -c1-110)" ) &
  done
  wait
done
