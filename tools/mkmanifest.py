#!/venv/bin/python
"""Regenerate MANIFEST.json from the table below (kept in one place so it is always valid)."""
import json
import os

VERIF = os.path.dirname(os.path.dirname(os.path.abspath(__file__)))

SIM = 'deterministic whole-stack simulator (virtual clock, fake transports) drives the unmodified library; '

CHECKS = {
    'C01': dict(
        technique='property-based testing (Hypothesis) with differential round-trip oracle against an independent RFC 1035 codec',
        text='Generated messages (shared-suffix name pools that may contain the root name, all record kinds, answers added with add_answer_at_time or through add_answer(incoming_query, record), packets() called twice, remaining-TTL modes, bulk up to 400 entries aimed at '
             'the 1460/8966-byte limits) are built with DNSOutgoing and decoded with DNSIncoming and an independent decoder; '
             'per-section equality with the expectation computed from the case. Exploration only: no absence claim.',
        note='trusts vlib/wire.py (independent codec) and Hypothesis; names bounded in characters as the property states; in a third of the cases the entry objects went into an earlier message first (other QU bit, reverse order)',
        ref='3/C01'),
    'C14': dict(
        technique='property-based testing (Hypothesis), size-directed generation, invariant oracle over raw datagrams via independent decoder',
        text='Same generator as C01 aimed at the datagram limits; checks size bounds, header counts, exactly-once accounting, TC discipline.',
        note='trusts vlib/wire.py; precondition: each entry alone fits 8966 bytes',
        ref='3/C14'),
}

CHECKS.update({
    'C02': dict(
        technique='property-based testing (Hypothesis: mutation + compression-graph grammar), bounded-exhaustive enumeration, coverage-guided fuzzing (atheris) with differential oracle',
        text='Byte strings from four sources (the compression-graph grammar includes over-long names that are referred to again by pointers) plus an atheris campaign (thorough) go through one oracle: no exception, work within a frozen '
             'line/call budget measured with sys.monitoring, names <= 253 chars when valid, equality with an independent strict RFC 1035 '
             'decoder whenever that accepts. The small-alphabet block is enumerated completely; everything else is exploration.',
        note='trusts vlib/wire.py strict decoder and the frozen work budget (4x the adversarial maximum observed on the repaired tree); another datagram is decoded between the construction of a message and the first read of its records',
        ref='3/C02'),
    'C19': dict(
        technique='property-based testing (Hypothesis grammar + rule-violation catalogue) against an independent three-valued name grammar; TXT round trip through an independent RFC 6763 parser',
        text='Generated valid/near-valid names in both strict modes are judged by NameSpec (ACCEPT(type)/REJECT/UNSPECIFIED); property '
             'dictionaries are encoded by ServiceInfo and decoded by an independent parser and by the library. Exploration.',
        note='trusts vlib/models.py NameSpec/txt_parse; UNSPECIFIED regions create no obligation; the application edits the .properties dictionaries it was handed; later objects must read back the input',
        ref='3/C19'),
    'C20': dict(
        technique='bounded-exhaustive enumeration of record/question pairs plus property-based random pairs (Hypothesis); oracle = identity computed from construction parameters',
        text='All ordered pairs over a bounded vocabulary (594 records + 27 questions in the quick tier; NSEC type lists in both orders) and random derived pairs; ==, !=, hash, '
             'set/dict membership, DNSRRSet.suppresses and DNSCache.get/async_get_unique must agree with the identity relation.',
        note='exhaustive only over the stated vocabulary; NSEC next-name case not varied; the caller goes on using the list an NSEC record was made from',
        ref='3/C20'),
})

CHECKS.update({
    'C05': dict(
        technique='model-based property testing (Hypothesis-generated histories interpreted against an RFC 6762 s10 reference model) plus bounded-exhaustive enumeration of short histories',
        text=SIM + 'histories of independent-encoder datagrams and clock steps are applied to one real instance; every lookup path of '
             'DNSCache is compared with CacheModel after every op and every purge report with the model purge set. All histories up to '
             'depth 3 (quick) / 4 (thorough) over a 21-symbol alphabet are enumerated; beyond that random exploration.',
        note='trusts CacheModel, the simulator and vlib/wire.py; contradictory datagrams (same identity with zero and non-zero TTL) excluded',
        ref='3/C05'),
    'C06': dict(
        technique='model-based property testing (Hypothesis histories with listener-set mutations, spy listeners, reference model)',
        text=SIM + 'per datagram the spy listeners\' calls (count, order, arguments, identity of the previous object) and the cache state '
             'visible inside the first and second callback are compared with what CacheModel derives from the statement; listeners are added, removed and registered a second time between datagrams and from inside callbacks.',
        note='trusts CacheModel and the simulator; listeners added/removed during a datagram are exempt for that datagram',
        ref='3/C06'),
})

CHECKS.update({
    'C03': dict(
        technique='model-based property testing (Hypothesis histories of register/update/unregister/query against ResponderModel), replies read from the simulated wire with an independent decoder',
        text=SIM + 'generated registry histories and queries (legacy port, QM, or port 5353 with the QU bit on any subset of the questions; known answers aimed at the half-TTL boundary) are answered by the real '
             'responder; answers, TTLs and additionals on the wire are compared with ResponderModel; an update may fall between a query and its queued reply, after which nothing transmitted may carry a replaced record.',
        note='trusts ResponderModel, the simulator and vlib/wire.py; stated don\'t-care regions (ANY on hosts, NSEC corner cases) impose nothing',
        ref='3/C03'),
})

CHECKS.update({
    'C04': dict(
        technique='property-based testing of generated response/clock histories in the simulator; invariant oracle over the callback history and the real cache',
        text=SIM + 'browsers receive generated datagram histories (new/refresh/re-cased/goodbye/flush/repeated pointers, datagrams mixing pointer and SRV/TXT/A changes of one instance, clock steps up to hours); '
             'listeners given as listener= objects (also without update_service) or as handlers=[callable] (also with a one-shot handler that unregisters itself); callback alternation, live-set == cached pointer set after every op, and visibility of the triggering records from inside add_service.',
        note='restrictions of the property are built into the generator; C05 ties the cache itself to the RFC model; the handlers=[...] list may be one object the application reuses and clears',
        ref='3/C04'),
})

CHECKS.update({
    'C11': dict(
        technique='property-based testing of generated query scenarios in the simulator; oracle = ResponderModel + routing rules over the independently decoded trace',
        text=SIM + 'one measured query (QU/QM mix, probe, legacy or mDNS port, v4/v6, listen or respond socket) arrives at a generated offset or on the '
             '{-2..+2} ms grid around a quarter of a record TTL after its last perceived multicast; destination, socket, id, echoed questions, flush bits and '
             'unicast-vs-multicast choice of every reply are checked, plus header/flush/group/all-sockets format of every multicast of the run; in a third of the legacy-port cases a second source sends the same bytes 0-1001 ms later and must get its own unicast reply.',
        note='sighting = the host\'s own perception via a spy listener; PTR-floor interval is don\'t-care; additionals are C03\'s subject',
        ref='3/C11'),
})

CHECKS.update({
    'C12': dict(
        technique='property-based testing of generated arrival schedules in the simulator with recorded jitter; oracle = per-(query,record) time windows + injective justification matching over the independently decoded trace',
        text=SIM + 'schedules of 1-8 QM queries, peer sightings and truncated trains on a float-exact millisecond grid; every multicast answer must fall in a '
             'window some query justifies (immediate / aggregated 20..500 ms / protected sighting+1 s..query+1.2 s), every requirement must be covered, no '
             'duplicates; trains (whose last packet may be a probe) are assembled once per source after the recorded 400-500 ms hold with the union of known answers; the same query bytes from several hosts less than a second apart: only copies the documented duplicate guard drops may go unhandled.',
        note='sightings are read from the wire (every response record arriving on one of the host\'s sockets, its own multicasts included, except in a datagram byte-identical to the previous one on that socket within a second - the documented duplicate guard); assembly instants observed by wrapping handle_assembled_query from the harness; a truncated train counts as arriving when it is assembled (windows anchored there); QU questions are don\'t-cares; directed scenario in which the host\'s cached copy of its own record expires between two bursts of queries',
        ref='3/C12'),
})

CHECKS.update({
    'C08': dict(
        technique='property-based testing of generated query/withdrawal interleavings in the simulator; invariant oracle over the independently decoded trace and a peer browser',
        text=SIM + 'queries placed on a grid around async_unregister_service / async_close (answers immediate, aggregated, TC-held or in the 1 s protection queue); '
             'exactly three complete TTL-0 goodbyes 125 ms apart, and afterwards no datagram carries a withdrawn record with TTL > 0; a peer browser on a second host must not re-add.',
        note='5 s observation window after the withdrawal; registries built by register or reached through updates; in a quarter of the unregister cases the service is still announcing; or still probing (its registration call has not returned) when it is unregistered',
        ref='3/C08'),
})

CHECKS.update({
    'C17': dict(
        technique='property-based testing of generated shutdown schedules in the deterministic simulator and, for the thread clause, on a real-thread world with compressed time; invariant oracle over trace, callback log, task/thread outcomes and the loop exception handler',
        text=SIM + 'async_close() is requested at generated instants (grid around registration steps, queued answers, TC holds, browser start-up, pending lookups) '
             'or aimed at the periodic purge timer to within a few event-loop iterations of 1 us-1 ms virtual cost, on a victim with an active peer and a never-removed RecordUpdateListener; nothing may be sent or called back after close returned, in-flight coroutines finish with documented outcomes, '
             'registered services get three complete goodbyes and the last multicast about each of the instance\'s records before the sockets close carries TTL 0, a second close is silent, 3 h of virtual time stay quiet. About one case in sixty runs Zeroconf() with its own loop thread on a real selector loop (clock compressed 10x) and calls close() from a non-loop thread (or from a browser callback) while calls on other threads are in flight, slow listeners start further browsers from their callbacks and browsers created the README\'s way are running, or keeps the instance in the application\'s own loop, which goes on after a blocking close() from another thread; one case in fifteen closes the instance 0-6 loop iterations after its constructor returned.',
        note='the real-thread cases are not pure functions of the case (OS scheduling): their oracle is timing-free and a violation observed once stands; virtual-time busy loops are reported via an iteration budget',
        ref='3/C17'),
})

CHECKS.update({
    'C10': dict(
        technique='property-based testing of generated learn/refresh/re-case/withdraw/clock histories in the simulator; existential ladder-search oracle over the browser\'s query instants',
        text=SIM + 'one or two browsers, each on one or several types (also a type with one of its subtypes, whose pointers name the same instances); pointer records with different TTLs are learned (also repeated inside one datagram) in any order relative to the scheduler\'s armed wake-up, refreshes with another TTL aimed at the window in which the scheduler keeps its entry; start-up schedule and question types, '
             'minimum spacing, a 75 %/+10 % ladder of refresh attempts per record lifetime (searched existentially) and absence of queries on stale schedules are checked over hours of virtual time; a quarter of the cases use the thread-based ServiceBrowser.',
        note='ladder windows carry one inter-query delay of slack on both sides; expiry discovered by the engine\'s own purge timer',
        ref='3/C10'),
})

CHECKS.update({
    'C13': dict(
        technique='property-based testing of generated cache/asker/peer-question scenarios in the simulator with pinned, recorded jitter; oracle = cache snapshot at sendto time + reference question-history model',
        text=SIM + 'browsers, lookups and registered services share one instance whose cache holds 0-400 pointers aged around half TTL; every emitted query '
             '(TC chains assembled, independent decoder) must list exactly the non-stale matching records with floor(remaining TTL); scheduled asking instants '
             'are replayed against HistoryModel (own questions per question, heard answerable questions with the whole answer section): QM emitted iff not suppressed, QU always, progression and lookup spacing.',
        note='heard queries are observed at handle_assembled_query (harness-side wrapper); decisions within the clock drift of a boundary are ties; open finding F14 excluded by construction; a lookup may re-use the ServiceInfo object of an attempt that timed out or was cancelled',
        ref='3/C13'),
})

CHECKS.update({
    'C18': dict(
        technique='property-based testing of generated cache states and record arrival schedules in the simulator; oracle = availability intervals from the harness\' own injection log',
        text=SIM + 'SRV/TXT/A/AAAA records absent, fresh, stale or expired-but-unpurged, plus arrivals (records in either order inside a datagram) on a grid around the lookup\'s query instants and its deadline; '
             'return time bound, True => fields from records unexpired inside the window and >= 1 address, False => SRV and address never both available, '
             'cache-first without transmission listing all unexpired addresses (also one link-local address cached under two scopes), QU-then-QM, and per query: fresh SRV/TXT answer held => question omitted, no unexpired answer held => question asked.',
        note='no cache-flush bits; one SRV identity per instance; same-instant ordering by sequence number',
        ref='3/C18'),
})

CHECKS.update({
    'C09': dict(
        technique='property-based testing of generated conflict-arrival/delay schedules on a two-host simulated link; oracle over the newcomer\'s independently decoded trace, its perceived cache learning times and the API result',
        text=SIM + 'owner chains X, X-2, X-3, pre-populated or empty caches, 0-150 ms one-way delays, conflicting pointers injected on a grid around the three probe instants (also as the refresh of a pointer that just expired in the newcomer\'s cache); '
             'probe format and 175 ms spacing, announcements only after the third probe (3 x 225 ms, complete, configured TTLs, flush bits), conflicts learned before the '
             'third probe rejected and never announced, no spurious conflicts or skipped suffixes, no duplicate names.',
        note='t_learn is the newcomer\'s own perception via a spy listener; a conflict within 2 ms of the third probe instant is a tie; the same ServiceInfo object may have been registered before, also under another name',
        ref='3/C09'),
})

CHECKS.update({
    'C16': dict(
        technique='metamorphic property-based testing: generated traffic history run once (R) and with every datagram duplicated (D) in the deterministic simulator under keyed jitter; traces and callback logs compared',
        text=SIM + 'queries of every kind and responses with new/refreshed/goodbye/flush records, on an IPv4 or IPv6 socket; D must equal R in (time, socket, destination, decoded content) '
             'and in browser callbacks, except for a repeated unicast reply to a QU-containing datagram.',
        note='F10 (a duplicated QU datagram repeated its multicast side effects) was an open finding until it was repaired in /repo; since then nothing is excluded from the comparison',
        ref='3/C16'),
})

CHECKS.update({
    'C15': dict(
        technique='stream fuzzing with structure-aware generators (Hypothesis: mutations, compression-graph grammar, hostile-but-parsable names) against a running instance in the simulator; invariant + canary oracle',
        text=SIM + 'streams of 1-25 (thorough 40) datagrams incl. 20 % oversized and announcements that repeat a record inside one datagram, gaps from 0 ms to 77 min, from mDNS and legacy ports, IPv4/IPv6, on every socket of a victim that has registered services, '
             'a browser and a lookup in progress (the application may start more lookups and cancel them as datagrams arrive); no exception may reach the loop, oversized datagrams leave no trace, and canary query/announcement traffic still works afterwards (incl. a poller and a peer that repeat one datagram every 400-999 ms: copies a second or more after the last handled one are handled).',
        note='reuses C02\'s generators; an atheris corpus is not wired into this check (the grammar reaches the states fuzzing did not); directed streams: cut announcement, type enumeration, TC bursts, same-name-other-length label twins; canary phase with a poller and a repeating peer',
        ref='3/C15'),
})

CHECKS.update({
    'C07': dict(
        category='fault_enumeration',
        technique='property-based scenario generation on a simulated multi-host link plus single-datagram-loss fault enumeration (each generated schedule re-run with datagram k dropped); convergence oracle over browser callbacks and lookups',
        text=SIM + '2-5 hosts (joining at the start or just before first use), 1-6 services (one host name each, or one per machine), 1-4 browsers (question type default/QM/QU), withdrawal races against queued answers, register/update/unregister/close at generated times, 0-100 ms '
             'per-receiver delays, optional duplication; each schedule is run without loss and then with one datagram dropped (three targeted k in the quick tier, every k for '
             'N <= 120 in the thorough tier). After 20 s every active browser must report exactly the registered instances, in a third of the scenarios also 80 or 160 minutes later (and so must a browser started in between, also one started 50 ms after a pointer nobody refreshed ran out in its host\'s cache, and one on a machine that joins the link at 45-50 % of the pointer life with an empty cache, browses half a minute and leaves); lookups from Added callbacks must resolve the advertised data, TXT and port judged against an RFC 6762 s10 view of what was delivered to the looking-up host.',
        note='operations on one host are sequential and await the returned broadcast task; same-family address updates only; evaluations counts executed runs',
        ref='3/C07'),
})

NOT_YET = {
}


def main():
    props = [json.loads(l)['id'] for l in open(os.path.join(VERIF, 'properties.jsonl'))]
    checks = []
    for pid in props:
        if pid not in CHECKS:
            continue
        c = CHECKS[pid]
        checks.append({
            'property_id': pid,
            'quick_cmd': f'./check {pid} --tier quick',
            'thorough_cmd': f'./check {pid} --tier thorough',
            'evidence_file': f'evidence/{pid}.json',
            'replay_cmd_template': f'./check {pid} --replay {{path}}',
            'engine': 'vlib',
            'level_claimed': {'category': c.get('category', 'exploration'), 'text': c['text'], 'design_ref': 'DESIGN.md ' + c['ref']},
            'level_note': c['note'],
            'technique': c['technique'],
        })
    na = [{'property_id': pid, 'reason': NOT_YET.get(pid, 'check not built yet in this session (no claim made); see DESIGN.md build order')}
          for pid in props if pid not in CHECKS]
    m = {
        'version': 1,
        'setup_cmd': './setup.sh',
        'hooks': {
            'guard': 'ZEROCONF_VERIF',
            'enable': 'no source hooks are needed: checks import /repo/src directly and replace time, randomness and sockets from outside',
            'baseline_off_cmd': 'cd /repo && /venv/bin/python -m pytest -ra -q -p no:cacheprovider --timeout=900 --continue-on-collection-errors',
            'source_commits': [],
            'add_only': True,
        },
        'engines': [{'name': 'vlib', 'path': 'vlib/', 'serves_properties': sorted(CHECKS),
                     'kind_free_text': 'Hypothesis-driven property-based testing / fuzzing harness with independent DNS codec, '
                                       'deterministic whole-stack simulator and reference models'}],
        'checks': checks,
        'not_applicable': na,
        'notes': 'Technique family: property-based testing and fuzzing. See DESIGN.md. Genuine defects repaired in /repo are '
                 'listed in known_findings.json (status fixed); open findings print KNOWN-FINDING lines.',
    }
    with open(os.path.join(VERIF, 'MANIFEST.json'), 'w') as f:
        json.dump(m, f, indent=1)
    print('wrote MANIFEST.json with', len(checks), 'checks;', len(na), 'not claimed')


if __name__ == '__main__':
    main()
