#!/bin/sh
# usage: tools/seeded_src.sh <name> <worktree> <PROP> [more PROPs]
# First pass for a sub-agent's breaking change: copies patch/demo/notes into seeded/<name>, runs the demonstration against the
# changed and the unchanged source, and runs the quick checks against the changed worktree (--src), leaving /repo untouched.
NAME="$1"; WT="$2"; shift 2
cd "$(dirname "$0")/.." || exit 2
D=seeded/$NAME
mkdir -p $D
cp $WT/patch.diff $D/patch.diff
cp $WT/demo_*.py $D/ 2>/dev/null
cp $WT/NOTES.md $D/NOTES.md 2>/dev/null
DEMO=$(cd $WT && ls demo_*.py | head -1)
( cd $WT && PYTHONPATH=$WT/src timeout 120 /venv/bin/python $DEMO > /tmp/seeded-$NAME-demo-with.log 2>&1; echo "$NAME demo with change: exit=$? (expect 1)" )
( cd $WT && PYTHONPATH=/repo/src timeout 120 /venv/bin/python $DEMO > /tmp/seeded-$NAME-demo-without.log 2>&1; echo "$NAME demo unchanged:  exit=$? (expect 0)" )
git -C /repo apply --check /verif/$D/patch.diff || echo "$NAME: PATCH DOES NOT APPLY to /repo"
for P in "$@"; do
  ( ./check $P --no-evidence --src $WT/src > /tmp/seeded-$NAME-$P.log 2>&1
    echo "$NAME $P rc=$? $(grep '^violation' /tmp/seeded-$NAME-$P.log | head -1 | cut -c1-200)" ) &
done
wait
