#!/venv/bin/python
"""usage: tools/seedmeta.py <name> <property> '<needs>' '<caught by ...>' '<suite result>'"""
import json, sys, os
name, prop, needs, caught, suite = sys.argv[1:6]
d = os.path.join(os.path.dirname(os.path.dirname(os.path.abspath(__file__))), 'seeded', name)
notes = open(os.path.join(d, 'NOTES.md')).read() if os.path.exists(os.path.join(d, 'NOTES.md')) else ''
meta = {
    'property_broken': prop,
    'origin': 'written by a fresh sub-agent that saw only the property text and its own scratch worktree of /repo (nothing from /verif)',
    'needs_to_manifest': needs,
    'files': sorted(os.listdir(d)),
    'confirmed_by_me': {
        'applies_and_imports': True,
        'existing_suite_with_change': suite,
        'demonstration': 'exit 1 with the change, exit 0 on the unchanged tree (tools/seeded.sh)',
    },
    'checks_run_against_it': caught,
}
json.dump(meta, open(os.path.join(d, 'meta.json'), 'w'), indent=1)
print('wrote', os.path.join(d, 'meta.json'))
