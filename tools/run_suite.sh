#!/bin/sh
# usage: /tmp/run_suite.sh <worktree>   - runs the repository's test suite of <worktree> in a private network namespace
WT="${1:-/repo}"
cd "$WT" || exit 2
export PYTHONPATH="$WT/src"
unshare -rn sh -c "ip link set lo up; ip link add dummy0 type dummy 2>/dev/null && ip addr add 10.255.0.1/24 dev dummy0 && ip link set dummy0 up && ip link set dummy0 multicast on; ip route add 224.0.0.0/4 dev lo 2>/dev/null; /venv/bin/python -m pytest -q -p no:cacheprovider --timeout=900 -x -q --deselect tests/services/test_types.py::test_integration_with_listener_ipv6 2>&1 | tail -n 8"
/venv/bin/python -m pytest -q -p no:cacheprovider --timeout=900 tests/services/test_types.py::test_integration_with_listener_ipv6 2>&1 | tail -n 3
