#!/usr/bin/env python3
"""usage: tools/prompts/gen_round.py <round number> <template> <outdir> <worktree prefix>
Builds one prompt per property from the template: CNN -> property id, <PRIOR> -> the 'needs_to_manifest' lines of every earlier
seeded change for that property (so that a new sub-agent picks a different mechanism), wtK- -> the worktree prefix."""
import json, os, sys
rnd, tmpl, out, prefix = sys.argv[1:5]
V = os.path.dirname(os.path.dirname(os.path.dirname(os.path.abspath(__file__))))
t = open(tmpl).read()
os.makedirs(out, exist_ok=True)
for n in range(1, 21):
    pid = 'C%02d' % n
    prior = []
    for d in sorted(os.listdir(os.path.join(V, 'seeded'))):
        if d == pid or d.startswith(pid + '-'):
            mp = os.path.join(V, 'seeded', d, 'meta.json')
            if os.path.exists(mp):
                prior.append(json.load(open(mp)).get('needs_to_manifest', '')[:170])
    pr = ' '.join('%s) %s' % (chr(ord('a') + i), p) for i, p in enumerate(prior))
    open(os.path.join(out, pid + '.txt'), 'w').write(t.replace('<PRIOR>', pr).replace('CNN', pid).replace('/tmp/wtK-', prefix))
print('wrote', out)
