#!/bin/sh
# usage: tools/seeded.sh <name> <worktree> <PROP> [more PROPs]  - import a sub-agent's breaking change and run checks against it
# Applies the patch to /repo, runs the quick checks, and ALWAYS restores /repo afterwards.
NAME="$1"; WT="$2"; shift 2
cd "$(dirname "$0")/.." || exit 2
D=seeded/$NAME
mkdir -p $D
cp $WT/patch.diff $D/patch.diff
cp $WT/demo_*.py $D/ 2>/dev/null
cp $WT/NOTES.md $D/NOTES.md 2>/dev/null
echo "== demo against the changed worktree (expect exit 1)"
( cd $WT && PYTHONPATH=$WT/src /venv/bin/python $(ls demo_*.py | head -1) > /tmp/seeded-demo-with.log 2>&1; echo "exit=$?" )
echo "== demo against the unchanged tree (expect exit 0)"
( cd $WT && PYTHONPATH=/repo/src /venv/bin/python $(ls demo_*.py | head -1) > /tmp/seeded-demo-without.log 2>&1; echo "exit=$?" )
git -C /repo status --short | grep -v '^??' && { echo "/repo not clean"; exit 2; }
git -C /repo apply /verif/$D/patch.diff || { echo "patch does not apply"; exit 2; }
for P in "$@"; do
  ( ./check $P --no-evidence > /tmp/seeded-$NAME-$P.log 2>&1
    echo "$P rc=$? $(grep -c '^VIOLATION' /tmp/seeded-$NAME-$P.log) $(grep '^violation' /tmp/seeded-$NAME-$P.log | head -1 | cut -c1-160)" ) &
done
wait
git -C /repo checkout -- . ; git -C /repo status --short | grep -v '^??' || true
