"""Hand-written mutants (realistic, compile, intended to be test-suite-silent). See DESIGN.md section 5."""

OUT = '_protocol/outgoing.py'
INC = '_protocol/incoming.py'
DNS = '_dns.py'

MUTANTS = [
    # ---- C01 / C14 -------------------------------------------------------------------------------
    {'id': 'c01-m1-partial-offset', 'props': ['C01'], 'file': OUT,
     'old': "self.names[partial_name] = start_size + name_length - len(partial_name.encode('utf-8'))",
     'new': "self.names[partial_name] = start_size + name_length - len(partial_name.encode('utf-8')) + (1 if count > 2 else 0)",
     'note': 'compression offset off by one for deep suffixes'},
    {'id': 'c01-m2-rollback-names', 'props': ['C01', 'C14'], 'file': OUT,
     'old': "rollback_names = [name for name, idx in self.names.items() if idx >= start_size_int]",
     'new': "rollback_names = [name for name, idx in self.names.items() if idx > start_size_int]",
     'note': 'roll-back leaves the first name of the rolled-back record in the table'},
    {'id': 'c01-m3-names-lower', 'props': ['C01'], 'edits': [
        {'file': OUT, 'old': "index = self.names.get(name, 0)", 'new': "index = self.names.get(name.lower(), 0)"},
        {'file': OUT, 'old': "self.names[name] = start_size", 'new': "self.names[name.lower()] = start_size"}],
     'note': 'name table keyed case-insensitively: spelling lost'},
    {'id': 'c01-m4-srv-swap-symmetric', 'props': ['C01'], 'edits': [
        {'file': DNS, 'old': "out.write_short(self.priority)\n        out.write_short(self.weight)",
         'new': "out.write_short(self.weight)\n        out.write_short(self.priority)"},
        {'file': INC, 'old': "priority = view[offset] << 8 | view[offset + 1]\n            weight = view[offset + 2] << 8 | view[offset + 3]",
         'new': "weight = view[offset] << 8 | view[offset + 1]\n            priority = view[offset + 2] << 8 | view[offset + 3]"}],
     'note': 'symmetric encoder/decoder bug: only the independent decoder sees it'},
    {'id': 'c01-m5-ttl-mask', 'props': ['C01'], 'file': OUT,
     'old': "value_as_int = int(value)", 'new': "value_as_int = int(value) & 0x7FFFFFFF"},
    {'id': 'c01-m6-nsec-bitorder-symmetric', 'props': ['C01'], 'edits': [
        {'file': DNS, 'old': "bitmap[byte] |= 0x80 >> (rdtype % 8)", 'new': "bitmap[byte] |= 0x01 << (rdtype % 8)"},
        {'file': INC, 'old': "if byte & (0x80 >> bit):", 'new': "if byte & (0x01 << bit):"}]},
    {'id': 'c01-m7-names-not-reset', 'props': ['C01', 'C14'], 'file': OUT,
     'old': "    def _reset_for_next_packet(self) -> None:\n        self.names = {}",
     'new': "    def _reset_for_next_packet(self) -> None:\n        self.names = self.names"},
    {'id': 'c01-m8-remaining-ttl-round', 'props': ['C01'], 'file': OUT,
     'old': "value_as_int = int(value)", 'new': "value_as_int = int(round(value))",
     'note': 'remaining TTL rounded instead of truncated'},
    {'id': 'c01-m9-unicast-keeps-flush', 'props': ['C01'], 'file': OUT,
     'old': "if record.unique is True and self.multicast:", 'new': "if record.unique is True:"},
    {'id': 'c14-m1-allow-long-sticky', 'props': ['C14'], 'file': OUT,
     'old': "        self.allow_long = False\n\n        if self.size <= len_limit:",
     'new': "\n        if self.size <= len_limit:"},
    {'id': 'c14-m2-limit-lt', 'props': ['C14', 'C01'], 'file': OUT,
     'old': "if self.size <= len_limit:", 'new': "if self.size < len_limit:"},
    {'id': 'c14-m3-tc-on-response', 'props': ['C14'], 'file': OUT,
     'old': "if has_more_to_add and self.is_query():", 'new': "if has_more_to_add:"},
    {'id': 'c14-m4-tc-missing-middle', 'props': ['C14'], 'file': OUT,
     'old': "if has_more_to_add and self.is_query():", 'new': "if has_more_to_add and self.is_query() and not packets_data:"},
    {'id': 'c14-m5-counts-order', 'props': ['C14', 'C01'], 'file': OUT,
     'old': "self._insert_short_at_start(additionals_written)\n            self._insert_short_at_start(authorities_written)",
     'new': "self._insert_short_at_start(authorities_written)\n            self._insert_short_at_start(additionals_written)"},
    {'id': 'c14-m6-limit-plus-header', 'props': ['C14'], 'file': OUT,
     'old': "len_limit = _MAX_MSG_ABSOLUTE if self.allow_long else _MAX_MSG_TYPICAL",
     'new': "len_limit = _MAX_MSG_ABSOLUTE if self.allow_long else _MAX_MSG_TYPICAL + _DNS_PACKET_HEADER_LEN"},
]
