#!/bin/sh
# Offline setup: hypothesis into /venv (idempotent) and atheris into /verif/.deps (thorough tiers only).
cd "$(dirname "$0")" || exit 1
/venv/bin/python -c "import hypothesis" 2>/dev/null || \
  /venv/bin/pip install --no-index --find-links /opt/veriftools/wheels hypothesis || exit 1
if [ ! -d .deps/atheris ]; then
  /venv/bin/pip install --no-index --find-links /opt/veriftools/wheels --target .deps atheris >/dev/null 2>&1 || \
    echo "setup: atheris not installed (C02/C15 thorough fuzz stage will be skipped)"
fi
mkdir -p evidence replays
exit 0
