"""Independent DNS wire codec (RFC 1035 s4, RFC 2782, RFC 3596, RFC 4034 s4.1, RFC 6762 s18).

Deliberately imports nothing from zeroconf.  `strict_decode` rejects anything doubtful:
a reject only removes a differential obligation, it never creates one.

Message model (plain dicts so cases stay JSON-friendly once bytes are hexed):
  msg  = {'id', 'flags', 'qd': [q], 'an': [rr], 'ns': [rr], 'ar': [rr]}
  q    = {'name': [label bytes], 'type', 'cls'}            (cls = raw 16 bit, top bit = QU)
  rr   = {'name', 'type', 'cls', 'ttl', 'rd': {...}}       (cls raw, top bit = cache-flush)
  rd   = A/AAAA {'addr'} | PTR/CNAME {'target'} | TXT {'txt'} | SRV {'prio','weight','port','target'}
         | HINFO {'cpu','os'} | NSEC {'next','types'} | other {'raw'}
"""
from __future__ import annotations

import struct
from typing import Any, Dict, List, Optional, Tuple

T_A, T_CNAME, T_PTR, T_HINFO, T_TXT, T_AAAA, T_SRV, T_NSEC, T_ANY = 1, 5, 12, 13, 16, 28, 33, 47, 255
SUPPORTED = {T_A, T_CNAME, T_PTR, T_HINFO, T_TXT, T_AAAA, T_SRV, T_NSEC}
MAX_TEXT_NAME = 253  # the properties' bound: characters including the trailing dot


class Reject(Exception):
    pass


def name_text(labels: List[bytes]) -> str:
    """The library's documented text form: UTF-8 with replacement, labels joined by '.', trailing dot."""
    return '.'.join(l.decode('utf-8', 'replace') for l in labels) + '.'


class _Dec:
    def __init__(self, data: bytes, enforce_len: bool = True) -> None:
        self.d = data
        self.n = len(data)
        self.enforce_len = enforce_len
        self.label_starts: set = set()   # offsets where a label or pointer of an in-place name begins
        self.pointers = 0
        self.max_chain = 0

    def u8(self, off: int) -> int:
        if off >= self.n:
            raise Reject('truncated')
        return self.d[off]

    def u16(self, off: int) -> int:
        if off + 2 > self.n:
            raise Reject('truncated')
        return (self.d[off] << 8) | self.d[off + 1]

    def u32(self, off: int) -> int:
        if off + 4 > self.n:
            raise Reject('truncated')
        return struct.unpack_from('>L', self.d, off)[0]

    def name(self, off: int, limit: Optional[int] = None) -> Tuple[List[bytes], int]:
        """Parse a name starting at `off`; returns (labels, offset after the in-place part)."""
        labels: List[bytes] = []
        wire_len = 0
        start = off
        in_place = True
        end_after = -1
        chain = 0
        new_starts = []
        while True:
            b = self.u8(off)
            if b == 0:
                wire_len += 1
                if in_place:
                    end_after = off + 1
                break
            if b < 0x40:
                if off + 1 + b > self.n:
                    raise Reject('label runs past end')
                if in_place:
                    if limit is not None and off + 1 + b > limit:
                        raise Reject('label runs past rdata')
                    new_starts.append(off)
                labels.append(self.d[off + 1:off + 1 + b])
                wire_len += 1 + b
                off += 1 + b
                continue
            if b < 0xC0:
                raise Reject('reserved label type')
            tgt = ((b & 0x3F) << 8) | self.u8(off + 1)
            if in_place:
                if limit is not None and off + 2 > limit:
                    raise Reject('pointer runs past rdata')
                new_starts.append(off)
                end_after = off + 2
                in_place = False
            # strictly backward, and to the start of a label/pointer of a previously parsed name
            if tgt >= start or tgt not in self.label_starts:
                raise Reject('pointer not to a prior label start')
            self.pointers += 1
            chain += 1
            start = tgt  # every further hop must go further back
            off = tgt
        if self.enforce_len:
            if wire_len > 255:
                raise Reject('name longer than 255 octets')
            if len(name_text(labels)) > MAX_TEXT_NAME:
                raise Reject('name longer than 253 characters')
        if limit is not None and end_after > limit:
            raise Reject('name runs past rdata')
        self.label_starts.update(new_starts)
        self.max_chain = max(self.max_chain, chain)
        return labels, end_after

    def charstr(self, off: int, limit: int) -> Tuple[bytes, int]:
        ln = self.u8(off)
        if off + 1 + ln > limit:
            raise Reject('character-string runs past rdata')
        return self.d[off + 1:off + 1 + ln], off + 1 + ln

    def rdata(self, typ: int, off: int, rdlen: int) -> Dict[str, Any]:
        end = off + rdlen
        if end > self.n:
            raise Reject('rdata runs past end')
        if typ == T_A:
            if rdlen != 4:
                raise Reject('A rdlength != 4')
            return {'addr': self.d[off:end]}
        if typ == T_AAAA:
            if rdlen != 16:
                raise Reject('AAAA rdlength != 16')
            return {'addr': self.d[off:end]}
        if typ in (T_PTR, T_CNAME):
            labels, after = self.name(off, end)
            if after != end:
                raise Reject('PTR rdata not exactly a name')
            return {'target': labels}
        if typ == T_TXT:
            return {'txt': self.d[off:end]}
        if typ == T_SRV:
            if rdlen < 7:
                raise Reject('SRV too short')
            prio, weight, port = self.u16(off), self.u16(off + 2), self.u16(off + 4)
            labels, after = self.name(off + 6, end)
            if after != end:
                raise Reject('SRV rdata not exactly 6 octets + name')
            return {'prio': prio, 'weight': weight, 'port': port, 'target': labels}
        if typ == T_HINFO:
            cpu, o = self.charstr(off, end)
            os_, o = self.charstr(o, end)
            if o != end:
                raise Reject('HINFO rdata not exactly two character-strings')
            return {'cpu': cpu, 'os': os_}
        if typ == T_NSEC:
            labels, o = self.name(off, end)
            types: List[int] = []
            last_window = -1
            blocks = 0
            while o < end:
                if o + 2 > end:
                    raise Reject('NSEC block header truncated')
                window, ln = self.d[o], self.d[o + 1]
                if window <= last_window or not 1 <= ln <= 32 or o + 2 + ln > end:
                    raise Reject('NSEC block malformed')
                if self.d[o + 2 + ln - 1] == 0:
                    raise Reject('NSEC block with trailing zero octet')
                for i in range(ln):
                    byte = self.d[o + 2 + i]
                    for bit in range(8):
                        if byte & (0x80 >> bit):
                            types.append(window * 256 + i * 8 + bit)
                last_window = window
                blocks += 1
                o += 2 + ln
            if blocks < 1:
                raise Reject('NSEC without bitmap')
            return {'next': labels, 'types': types}
        return {'raw': self.d[off:end]}


def strict_decode_lenient_len(data: bytes) -> Dict[str, Any]:
    """As strict_decode but without the name-length limits (C01/C14 bound names in characters)."""
    return strict_decode(data, enforce_len=False)


def strict_decode(data: bytes, enforce_len: bool = True) -> Dict[str, Any]:
    d = _Dec(data, enforce_len)
    if d.n < 12:
        raise Reject('short header')
    mid, flags, nq, nan, nns, nar = struct.unpack_from('>6H', data, 0)
    off = 12
    msg: Dict[str, Any] = {'id': mid, 'flags': flags, 'qd': [], 'an': [], 'ns': [], 'ar': []}
    for _ in range(nq):
        labels, off = d.name(off)
        typ, cls = d.u16(off), d.u16(off + 2)
        off += 4
        msg['qd'].append({'name': labels, 'type': typ, 'cls': cls})
    for sec, cnt in (('an', nan), ('ns', nns), ('ar', nar)):
        for _ in range(cnt):
            labels, off = d.name(off)
            typ, cls, ttl, rdlen = d.u16(off), d.u16(off + 2), d.u32(off + 4), d.u16(off + 8)
            off += 10
            rd = d.rdata(typ, off, rdlen)
            off += rdlen
            msg[sec].append({'name': labels, 'type': typ, 'cls': cls, 'ttl': ttl, 'rd': rd})
    if off != d.n:
        raise Reject('trailing bytes')
    msg['_pointers'] = d.pointers
    msg['_max_chain'] = d.max_chain
    return msg


# ---------------------------------------------------------------------------
# Encoder.  Names are either a list of label bytes (compressed per `mode`) or a raw
# node list [('l', bytes) | ('p', offset_or_ref) | ('end',)] for adversarial graphs.

class Encoder:
    def __init__(self, compress: str = 'auto') -> None:
        self.buf = bytearray(12)
        self.compress = compress      # 'auto' | 'none'
        self.table: Dict[Tuple[bytes, ...], int] = {}
        self.marks: Dict[str, int] = {}       # named offsets for raw nodes
        self.len_positions: List[int] = []    # offsets of label-length / pointer octets
        self.rdlen_positions: List[int] = []  # offsets of rdlength fields
        self.fixups: List[Tuple[int, str]] = []

    def name(self, labels: List[bytes], mode: Optional[str] = None) -> None:
        mode = mode or self.compress
        for i in range(len(labels)):
            suffix = tuple(labels[i:])
            if mode in ('auto', 'chainy') and suffix in self.table:
                ptr = self.table[suffix]
                self.len_positions.append(len(self.buf))
                if mode == 'chainy' and len(self.buf) < 0x4000:
                    # next user of this suffix points at *this pointer*: legal pointer-to-pointer chains
                    self.table[suffix] = len(self.buf)
                self.buf += bytes([0xC0 | (ptr >> 8), ptr & 0xFF])
                return
            if len(self.buf) < 0x4000:
                self.table.setdefault(suffix, len(self.buf))
            self.len_positions.append(len(self.buf))
            self.buf.append(len(labels[i]))
            self.buf += labels[i]
        self.buf.append(0)

    def raw_name(self, nodes: List[Any]) -> None:
        for node in nodes:
            kind = node[0]
            if kind == 'l':
                self.buf.append(len(node[1]) & 0xFF)
                self.buf += node[1]
            elif kind == 'lenbyte':     # arbitrary length byte followed by given bytes
                self.buf.append(node[1] & 0xFF)
                self.buf += node[2]
            elif kind == 'p':
                tgt = node[1]
                if isinstance(tgt, str):
                    self.fixups.append((len(self.buf), tgt))
                    tgt = 0
                self.buf += bytes([0xC0 | ((tgt >> 8) & 0x3F), tgt & 0xFF])
                return
            elif kind == 'mark':
                self.marks[node[1]] = len(self.buf)
            elif kind == 'end':
                self.buf.append(0)
                return

    def any_name(self, n: Any) -> None:
        if n and isinstance(n[0], (tuple, list)) and n[0] and isinstance(n[0][0], str):
            self.raw_name(n)
        else:
            self.name(n)

    def question(self, q: Dict[str, Any]) -> None:
        self.any_name(q['name'])
        self.buf += struct.pack('>HH', q['type'], q['cls'])

    def rr(self, r: Dict[str, Any]) -> None:
        self.any_name(r['name'])
        self.buf += struct.pack('>HHL', r['type'], r['cls'], r['ttl'] & 0xFFFFFFFF)
        lenpos = len(self.buf)
        self.rdlen_positions.append(lenpos)
        self.buf += b'\0\0'
        rd, typ = r['rd'], r['type']
        if 'raw' in rd:
            self.buf += rd['raw']
        elif typ in (T_A, T_AAAA):
            self.buf += rd['addr']
        elif typ in (T_PTR, T_CNAME):
            self.any_name(rd['target'])
        elif typ == T_TXT:
            self.buf += rd['txt']
        elif typ == T_SRV:
            self.buf += struct.pack('>HHH', rd['prio'], rd['weight'], rd['port'])
            self.any_name(rd['target'])
        elif typ == T_HINFO:
            self.buf += bytes([len(rd['cpu'])]) + rd['cpu'] + bytes([len(rd['os'])]) + rd['os']
        elif typ == T_NSEC:
            self.any_name(rd['next'])
            self.buf += nsec_bitmap(rd['types'])
        else:
            raise ValueError('no rdata encoder for type %d' % typ)
        ln = r.get('rdlen_override')
        if ln is None:
            ln = len(self.buf) - lenpos - 2
        struct.pack_into('>H', self.buf, lenpos, ln & 0xFFFF)

    def finish(self, mid: int, flags: int, counts: Tuple[int, int, int, int]) -> bytes:
        struct.pack_into('>6H', self.buf, 0, mid & 0xFFFF, flags & 0xFFFF, *[c & 0xFFFF for c in counts])
        for pos, ref in self.fixups:
            tgt = self.marks.get(ref, 0)
            self.buf[pos] = 0xC0 | ((tgt >> 8) & 0x3F)
            self.buf[pos + 1] = tgt & 0xFF
        return bytes(self.buf)


def nsec_bitmap(types: List[int]) -> bytes:
    out = bytearray()
    by_window: Dict[int, bytearray] = {}
    for t in sorted(set(types)):
        w = by_window.setdefault(t >> 8, bytearray(32))
        w[(t & 0xFF) // 8] |= 0x80 >> (t % 8)
    for window in sorted(by_window):
        bm = bytes(by_window[window]).rstrip(b'\0')
        out += bytes([window, len(bm)]) + bm
    return bytes(out)


def encode(msg: Dict[str, Any], compress: str = 'auto', counts: Optional[Tuple[int, int, int, int]] = None) -> bytes:
    e = Encoder(compress)
    for q in msg.get('qd', []):
        e.question(q)
    for sec in ('an', 'ns', 'ar'):
        for r in msg.get(sec, []):
            e.rr(r)
    c = counts or (len(msg.get('qd', [])), len(msg.get('an', [])), len(msg.get('ns', [])), len(msg.get('ar', [])))
    return e.finish(msg.get('id', 0), msg.get('flags', 0), c)


def labels_of(name: str) -> List[bytes]:
    """Split a fully-qualified text name at dots (no escaping: a label cannot contain '.')."""
    assert name.endswith('.')
    body = name[:-1]
    return [l.encode('utf-8') for l in body.split('.')] if body else []
