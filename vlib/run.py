"""Runner: ./check <ID> [--tier quick|thorough] [--replay FILE] [--src DIR] [--examples N] [--shards K]

Exit codes: 0 held / 1 VIOLATION printed / 2 harness error.
"""
from __future__ import annotations

import argparse
import importlib
import json
import multiprocessing
import os
import sys
import time
import traceback
from typing import Any, Dict, List, Optional

VERIF = os.path.dirname(os.path.dirname(os.path.abspath(__file__)))

MODULES = {
    'C01': 'props.c01_roundtrip',
    'C02': 'props.c02_decoder',
    'C03': 'props.c03_responder',
    'C04': 'props.c04_browser',
    'C05': 'props.c05_cache',
    'C06': 'props.c06_ingest',
    'C07': 'props.c07_converge',
    'C08': 'props.c08_goodbye',
    'C09': 'props.c09_probe',
    'C10': 'props.c10_refresh',
    'C11': 'props.c11_routing',
    'C12': 'props.c12_timing',
    'C13': 'props.c13_known',
    'C14': 'props.c14_sizes',
    'C15': 'props.c15_survive',
    'C16': 'props.c16_duplicates',
    'C17': 'props.c17_shutdown',
    'C18': 'props.c18_lookup',
    'C19': 'props.c19_names_txt',
    'C20': 'props.c20_identity',
}


def setup_paths(src: str) -> None:
    src = os.path.abspath(src)
    if VERIF not in sys.path:
        sys.path.insert(0, VERIF)
    sys.path.insert(0, src)
    deps = os.path.join(VERIF, '.deps')
    if os.path.isdir(deps) and deps not in sys.path:
        sys.path.append(deps)
    os.environ['VERIF_SRC_ACTIVE'] = src
    import zeroconf  # noqa

    zf = os.path.realpath(zeroconf.__file__)
    if not zf.startswith(os.path.realpath(src) + os.sep):
        raise SystemExit(f'harness error: zeroconf imported from {zf}, expected under {src}')
    import logging

    logging.getLogger('zeroconf').setLevel(logging.CRITICAL)
    logging.getLogger('asyncio').setLevel(logging.CRITICAL)


def load_known(pid: str) -> List[Dict[str, Any]]:
    path = os.path.join(VERIF, 'known_findings.json')
    if not os.path.exists(path):
        return []
    with open(path) as f:
        data = json.load(f)
    return [e for e in data.get('findings', []) if pid in e.get('properties', [e.get('property')])]


def open_signatures(pid: str) -> Dict[str, Dict[str, Any]]:
    return {e['signature']: e for e in load_known(pid) if e.get('status') == 'open'}


def run_shard(args: Dict[str, Any]) -> Dict[str, Any]:
    """Run one Hypothesis search (one seed) in this process; returns a JSON-able result."""
    pid, tier, seed, n_examples, src, shard, nshards = (
        args['pid'], args['tier'], args['seed'], args['n_examples'], args['src'], args['shard'], args['nshards'],
    )
    setup_paths(src)
    from hypothesis import HealthCheck, Phase, given, seed as hseed, settings

    from vlib.core import HarnessError, Stats, Violation

    mod = importlib.import_module(MODULES[pid])
    open_sigs = open_signatures(pid)
    stats = Stats()
    failing: Dict[str, Any] = {'case': None, 'viol': None}
    t0 = time.time()
    budget_s = args.get('budget_s')
    state = {'stop': False}

    def one(case: Any) -> None:
        try:
            info = mod.check(case)
        except Violation as v:
            sig = mod.known_signature(case, v) if hasattr(mod, 'known_signature') else None
            if sig is not None and sig in open_sigs:
                stats.known[sig] += 1
                stats.evaluations += 1
                return
            failing['case'] = case
            failing['viol'] = v
            raise
        stats.record(case, info)

    result: Dict[str, Any] = {'shard': shard, 'seed': seed, 'violation': None, 'error': None}
    # 0. replay tier: committed regression cases (shrunk cases of earlier findings), bypassing Hypothesis
    if shard == 0:
        rdir = os.path.join(VERIF, 'regress', pid)
        n_reg = 0
        for fn in sorted(os.listdir(rdir)) if os.path.isdir(rdir) else []:
            if not fn.endswith('.json'):
                continue
            with open(os.path.join(rdir, fn)) as f:
                data = json.load(f)
            case = data['case'] if isinstance(data, dict) and 'case' in data else data
            try:
                one(case)
                n_reg += 1
            except Violation as v:
                result['violation'] = {'case': case, 'viol': v.to_json(), 'source': 'regress/' + fn}
                result['stats'] = stats.dump()
                return result
            except Exception:
                result['error'] = traceback.format_exc()
                result['stats'] = stats.dump()
                return result
        result['regress_replayed'] = n_reg
    # 1. deterministic / exhaustive blocks
    try:
        if hasattr(mod, 'enumerate_cases'):
            n_enum = 0
            for case in mod.enumerate_cases(tier, shard, nshards):
                one(case)
                n_enum += 1
            result['enumerated'] = n_enum
    except Violation as v:
        case = failing['case']
        if hasattr(mod, 'minimise'):
            try:
                case = mod.minimise(case)
            except Exception:  # pragma: no cover
                pass
        result['violation'] = {'case': case, 'viol': v.to_json(), 'source': 'enumeration'}
        result['stats'] = stats.dump()
        return result
    except Exception:
        result['error'] = traceback.format_exc()
        result['stats'] = stats.dump()
        return result

    # 2. generated search
    if n_examples > 0:
        phases = [Phase.explicit, Phase.generate, Phase.shrink]
        if args.get('no_shrink'):
            phases = [Phase.explicit, Phase.generate]

        @hseed(seed)
        @settings(
            max_examples=n_examples,
            database=None,
            deadline=None,
            report_multiple_bugs=False,
            derandomize=False,
            print_blob=False,
            phases=phases,
            suppress_health_check=[HealthCheck.too_slow, HealthCheck.data_too_large, HealthCheck.large_base_example],
        )
        @given(mod.strategy(tier))
        def prop(case: Any) -> None:
            if budget_s and time.time() - t0 > budget_s and failing['case'] is None:
                state['stop'] = True
                return
            one(case)

        try:
            prop()
        except Violation as v:
            case = failing['case']
            viol = failing['viol']
            if hasattr(mod, 'minimise'):
                try:
                    case2 = mod.minimise(case)
                    try:
                        mod.check(case2)
                    except Violation as v2:
                        case, viol = case2, v2
                except Exception:  # pragma: no cover
                    pass
            result['violation'] = {'case': case, 'viol': viol.to_json(), 'source': 'hypothesis'}
        except HarnessError:
            result['error'] = traceback.format_exc()
        except Exception as exc:
            from hypothesis.errors import Flaky

            if isinstance(exc, Flaky) and failing['case'] is not None and failing['viol'] is not None \
                    and getattr(mod, 'FLAKY_IS_VIOLATION', None) and mod.FLAKY_IS_VIOLATION(failing['case']):
                # a violation was observed on the real code but did not recur when Hypothesis re-ran the case: only possible for
                # cases that run real threads, iterate a set, or (pure checks) when the library carried state from an earlier case; what was seen stands
                result['violation'] = {'case': failing['case'], 'viol': failing['viol'].to_json(),
                                       'source': 'hypothesis (observed once; did not recur on the re-run of the same case - see the check module\'s FLAKY_IS_VIOLATION)'}
            else:
                result['error'] = traceback.format_exc()
                if failing['case'] is not None:
                    result['error_case'] = failing['case']
    result['inconclusive_budget'] = state['stop']
    result['stats'] = stats.dump()
    result['wall_s'] = time.time() - t0
    return result


def write_replay(pid: str, tier: str, seed: int, v: Dict[str, Any]) -> str:
    from vlib.core import case_hash

    d = os.path.join(VERIF, 'replays')
    os.makedirs(d, exist_ok=True)
    path = os.path.join(d, f'{pid}-{case_hash(v["case"])[:12]}.json')
    with open(path, 'w') as f:
        json.dump({'property': pid, 'tier': tier, 'seed': seed, 'case': v['case'], 'violation': v['viol'],
                   'source': v.get('source')}, f, indent=1, sort_keys=True)
    return os.path.relpath(path, VERIF)


def write_evidence(pid: str, mod: Any, tier: str, seed: int, merged: Dict[str, Any], wall: float,
                   violations: int, extra: Dict[str, Any]) -> None:
    d = os.path.join(VERIF, 'evidence')
    os.makedirs(d, exist_ok=True)
    cov = {
        'evaluations': merged['evaluations'],
        'distinct_nontrivial': len(merged['nontrivial']),
        'rule': mod.RULE,
        'samples': merged['samples'],
        'classes': dict(sorted(merged['classes'].items())),
        'maxima': merged['maxima'],
        'known_finding_hits': dict(merged['known']),
        'excluded_known': dict(merged['excluded']),
        'exhaustive': bool(getattr(mod, 'EXHAUSTIVE', False)),
    }
    cov.update(extra)
    ev = {
        'property_id': pid,
        'tier': tier,
        'seed': seed,
        'level': getattr(mod, 'LEVEL', 'exploration'),
        'coverage': cov,
        'assumptions': list(getattr(mod, 'ASSUMPTIONS', [])),
        'wall_s': round(wall, 2),
        'violations': violations,
    }
    with open(os.path.join(d, f'{pid}.json'), 'w') as f:
        json.dump(ev, f, indent=1, sort_keys=True, default=repr)


def replay(pid: str, path: str, src: str) -> int:
    setup_paths(src)
    from vlib.core import Violation

    mod = importlib.import_module(MODULES[pid])
    with open(path) as f:
        data = json.load(f)
    case = data['case'] if isinstance(data, dict) and 'case' in data else data
    try:
        info = mod.check(case)
    except Violation as v:
        print(f'replay: {v.msg}')
        print(json.dumps(v.to_json(), indent=1, default=repr)[:6000])
        print(f'VIOLATION property={pid} replay={path}')
        return 1
    print(f'replay: property held on this case; info={json.dumps(info, default=repr)[:600]}')
    return 0


def main() -> int:
    ap = argparse.ArgumentParser()
    ap.add_argument('pid')
    ap.add_argument('--tier', default=os.environ.get('VERIF_TIER', 'quick'), choices=['quick', 'thorough'])
    ap.add_argument('--replay')
    ap.add_argument('--src', default=os.environ.get('VERIF_SRC', '/repo/src'))
    ap.add_argument('--examples', type=int)
    ap.add_argument('--shards', type=int)
    ap.add_argument('--no-evidence', action='store_true')
    ap.add_argument('--no-shrink', action='store_true')
    a = ap.parse_args()
    pid = a.pid.upper()
    if pid not in MODULES:
        print(f'unknown property {pid}', file=sys.stderr)
        return 2
    if a.replay:
        try:
            return replay(pid, a.replay, a.src)
        except Exception:
            traceback.print_exc()
            return 2
    seed = int(os.environ.get('VERIF_SEED', '1'))
    t0 = time.time()
    try:
        setup_paths(a.src)
        mod = importlib.import_module(MODULES[pid])
    except BaseException:
        traceback.print_exc()
        return 2
    budget = mod.BUDGET[a.tier]
    nshards = a.shards or budget.get('shards', 1)
    n_examples = a.examples if a.examples is not None else budget['examples']
    jobs = [
        {'pid': pid, 'tier': a.tier, 'seed': seed if nshards == 1 else seed * 1000 + k, 'n_examples': n_examples,
         'src': a.src, 'shard': k, 'nshards': nshards, 'budget_s': budget.get('budget_s'),
         'no_shrink': a.no_shrink}
        for k in range(nshards)
    ]
    if nshards == 1:
        results = [run_shard(jobs[0])]
    else:
        ctx = multiprocessing.get_context('spawn')
        with ctx.Pool(min(nshards, os.cpu_count() or 1)) as pool:
            results = pool.map(run_shard, jobs, chunksize=1)
    from vlib.core import Stats

    merged = Stats.merge([r['stats'] for r in results if 'stats' in r])
    errors = [r for r in results if r.get('error')]
    viols = [r for r in results if r.get('violation')]
    extra: Dict[str, Any] = {
        'shards': nshards,
        'examples_per_shard': n_examples,
        'enumerated': sum(r.get('enumerated', 0) for r in results),
        'regression_cases_replayed': sum(r.get('regress_replayed', 0) for r in results),
        'inconclusive_budget_shards': sum(1 for r in results if r.get('inconclusive_budget')),
    }
    # optional post block in the parent (e.g. atheris campaigns)
    post_viol = None
    if hasattr(mod, 'post_block') and not errors and not viols:
        try:
            pb = mod.post_block(a.tier, seed)
            if pb:
                extra.update(pb.get('coverage', {}))
                post_viol = pb.get('violation')
        except BaseException:
            errors.append({'error': traceback.format_exc()})
    if post_viol:
        viols.append({'violation': post_viol})
    wall = time.time() - t0
    rc = 0
    for e in load_known(pid):
        if e.get('status') == 'open':
            print(f"KNOWN-FINDING: property={pid} {e['what']} (hits this run: {merged['known'].get(e['signature'], 0)})")
    if errors:
        for e in errors:
            print('HARNESS ERROR:\n' + e['error'], file=sys.stderr)
            if e.get('error_case') is not None:
                p = os.path.join(VERIF, 'replays', f'{pid}-harness-error.json')
                os.makedirs(os.path.dirname(p), exist_ok=True)
                with open(p, 'w') as f:
                    json.dump({'property': pid, 'case': e['error_case']}, f, default=repr)
                print(f'case written to {p}', file=sys.stderr)
        rc = 2
    if viols:
        # keep the smallest failing case
        best = min(viols, key=lambda r: len(json.dumps(r['violation']['case'], default=repr)))
        path = write_replay(pid, a.tier, seed, best['violation'])
        print(f"violation: {best['violation']['viol']['msg']}")
        print(json.dumps(best['violation']['viol'].get('details'), default=repr)[:3000])
        print(f'VIOLATION property={pid} replay={path}')
        rc = 1
    if not a.no_evidence and rc != 2:
        write_evidence(pid, mod, a.tier, seed, merged, wall, len(viols), extra)
    print(f"{pid} tier={a.tier} seed={seed} evaluations={merged['evaluations']} "
          f"distinct_nontrivial={len(merged['nontrivial'])} known_hits={dict(merged['known'])} "
          f"wall={wall:.1f}s rc={rc}")
    cls = dict(sorted(merged['classes'].items()))
    print('classes:', json.dumps(cls))
    return rc


if __name__ == '__main__':
    sys.exit(main())
