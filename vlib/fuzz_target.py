"""atheris entry point: python -m vlib.fuzz_target <PID> <src> <corpus_dir> [libFuzzer flags]

The target body is the property's byte-level oracle; a Violation is re-raised so libFuzzer records the input.
"""
import os
import sys

VERIF = os.path.dirname(os.path.dirname(os.path.abspath(__file__)))


def main() -> None:
    pid, src = sys.argv[1], sys.argv[2]
    rest = sys.argv[3:]
    sys.path.insert(0, VERIF)
    sys.path.insert(0, src)
    sys.path.append(os.path.join(VERIF, '.deps'))
    import logging

    logging.getLogger('zeroconf').setLevel(logging.CRITICAL)
    import atheris

    with atheris.instrument_imports(include=['zeroconf._protocol.incoming', 'zeroconf._dns']):
        import zeroconf  # noqa
        import zeroconf._dns  # noqa
        import zeroconf._protocol.incoming  # noqa
    assert os.path.realpath(zeroconf.__file__).startswith(os.path.realpath(src) + os.sep)
    if pid == 'C02':
        from props import c02_decoder as mod

        def target(data: bytes) -> None:
            if len(data) > 8966:
                return
            # state reset per iteration: the decoder's only module-level state is its once-only log memo
            zeroconf._protocol.incoming._seen_logs.clear()
            mod.oracle(data, None)
    else:
        raise SystemExit('no fuzz target for ' + pid)
    atheris.Setup([sys.argv[0]] + rest, target)
    atheris.Fuzz()


if __name__ == '__main__':
    main()
