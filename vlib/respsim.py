"""Responder-side scenario executor shared by C08, C11, C12, C16, C17.

Scenario (JSON):
 {'jitter': {'seed': n} | {'explicit': [pct, ...]},
  'socks': 'v4' | 'v6' | 'dual' | 'v4x2' | 'v4-split',
  'services': [service desc, ...],                      (registered and settled before t = 0)
  'settle_ms': int,                                      (quiet time after the last announcement)
  'events': [event, ...]                                 (executed in list order)
 }
 event time: {'gap': ms}  exact milliseconds after the previous event (clock is set float-exactly), or
             {'quarter': [svc index, 'srv'|'ptr'|'txt'|'addr'], 'delta': ms}  relative to last sighting + TTL/4
 event kinds:
   {'kind': 'query', 'qs': [[target, k, spelling, qtype, qu], ...], 'ka': [[idx, mode], ...], 'probe': bool, 'tc': bool,
    'client': int, 'family': 'v4'|'v6', 'port': 5353 | other, 'sock': int, 'id': int}
   {'kind': 'sighting', 'svc': k, 'which': ['ptr','srv','txt','addr'], 'ttl_mode': 'full'|'zero'}   peer announces the host's records
   {'kind': 'raw', 'hex': ..., ...}                       arbitrary datagram (C15/C16)
   {'kind': 'unregister', 'svc': k} | {'kind': 'close'}  (C08/C17)
   {'kind': 'register', 'svc': k}                         registers a service marked 'late' in the background (C08)
 'pre_updates': [{'svc': k, 'set': {field: value}}]        async_update_service calls made after registration, before settling (C08)
"""
from __future__ import annotations

import asyncio
import math
from typing import Any, Dict, List, Optional, Tuple

from . import gen, responder as rp, sim, wire
from .core import HarnessError, Violation

SOCKS = {
    'v4': ([('v4', '10.0.0.1')], True),
    'v6': ([('v6', 'fe80::1')], True),
    'v4-split': ([('v4', '10.0.0.1')], False),
    'v4x2': ([('v4', '10.0.0.1'), ('v4', '192.168.1.1')], False),
    'dual': ([('v4', '10.0.0.1'), ('v6', 'fe80::1')], False),
}
CLIENTS4 = ['10.0.0.77', '10.0.0.78', '10.0.0.79']
CLIENTS6 = ['fe80::77', 'fe80::78', 'fe80::79']


def ident_of_lib_record(r: Any) -> Optional[Tuple]:
    t = type(r).__name__
    if t == 'DNSPointer':
        return ('PTR', r.name.lower(), r.alias.lower())
    if t == 'DNSService':
        return ('SRV', r.name.lower(), r.priority, r.weight, r.port, r.server.lower())
    if t == 'DNSText':
        return ('TXT', r.name.lower(), r.text.hex())
    if t == 'DNSAddress':
        return ('A' if r.type == 1 else 'AAAA', r.name.lower(), r.address.hex())
    if t == 'DNSNsec':
        return ('NSEC', tuple(r.rdtypes), r.ttl, r.name.lower())
    return None


async def advance_exact(w: sim.World, base_ms: float, ms: float) -> None:
    """Sleep so that current_time_millis() - base_ms == ms (float-exact when possible)."""
    target_ms = base_ms + ms
    d = (target_ms - 0.3) / 1000.0 - w.clock.t
    if d > 0:
        await asyncio.sleep(d)
    t = target_ms / 1000.0
    cand = t
    for _ in range(64):
        diff = cand * 1000.0 - base_ms
        if diff == ms:
            break
        cand = math.nextafter(cand, math.inf if diff < ms else -math.inf)
    if cand * 1000.0 - base_ms == ms and cand >= w.clock.t:
        w.clock.t = cand
    elif t > w.clock.t:
        w.clock.t = t


class RespRun:
    def __init__(self, scenario: Dict[str, Any]) -> None:
        import copy

        self.sc = copy.deepcopy(scenario)      # 'pre_updates' rewrite the service descriptions: sc['services'] is the registry as it is
        self.model = rp.ResponderModel()
        self.queries: List[Dict[str, Any]] = []
        self.sightings: Dict[Tuple, List[Tuple[float, float, int]]] = {}
        self.arrivals: List[Dict[str, Any]] = []
        self._wire: Optional[Dict[Tuple, List[Tuple[float, float, int]]]] = None
        self.sends: List[Dict[str, Any]] = []
        self.infos: List[Any] = []
        self.in_flight: Dict[int, Any] = {}
        self.host: Optional[sim.Host] = None
        self.t_settled_ms = 0.0
        self.errors: List[Any] = []
        self.draws: List[Dict[str, Any]] = []
        self.api_events: List[Dict[str, Any]] = []
        self.world: Optional[sim.World] = None
        self.end_ms = 0.0
        self.assemblies: List[Dict[str, Any]] = []
        self.excluded_f12 = 0

    # -- helpers -----------------------------------------------------------------------------------
    def wire_sightings(self) -> Dict[Tuple, List[Tuple[float, float, int]]]:
        """Sightings judged from the datagrams that arrived on the host's sockets (its own multicasts loop back), independent of
        the record manager: every response record with its TTL (pointer floor applied), except in a datagram that is byte-identical
        to the previous datagram handled on that socket less than a second before (the listener's documented duplicate guard,
        which C11-C13 count as "not seen")."""
        if self._wire is not None:
            return self._wire
        out: Dict[Tuple, List[Tuple[float, float, int]]] = {}
        last: Dict[int, Tuple[bytes, float]] = {}
        for a in self.arrivals:
            prev = last.get(a['sock'])
            if prev is not None and prev[0] == a['data'] and a['t_ms'] - 1000 < prev[1]:
                m0 = None
                try:
                    m0 = wire.strict_decode_lenient_len(a['data'])
                except wire.Reject:
                    pass
                if m0 is None or m0['flags'] & 0x8000 or not any(q_['cls'] & 0x8000 for q_ in m0['qd']):
                    continue          # dropped unseen (a repeated QU query is let through and becomes the new reference)
            last[a['sock']] = (a['data'], a['t_ms'])
            try:
                m = wire.strict_decode_lenient_len(a['data'])
            except wire.Reject:
                continue
            if not m['flags'] & 0x8000:
                continue
            for r in m['an'] + m['ns'] + m['ar']:
                ident = rp.ident_of_wire_rr(r)
                if ident is None:
                    continue
                ttl = r['ttl']
                if r['type'] == 12 and 0 < ttl < 1125:
                    ttl = 1125
                out.setdefault(ident, []).append((a['t_ms'], ttl, a['g']))
        self._wire = out
        return out

    def dropped_by_duplicate_guard(self) -> List[Tuple[bytes, float]]:
        """(bytes, arrival ms) of the datagrams the listener's documented duplicate guard drops unseen: byte-identical to the last
        datagram *handled* on that socket less than a second before (a query with a QU question is let through)."""
        last: Dict[int, Tuple[bytes, float]] = {}
        dropped: List[Tuple[bytes, float]] = []      # with repeats: two copies may arrive at one instant
        for a in self.arrivals:
            prev = last.get(a['sock'])
            if prev is not None and prev[0] == a['data'] and a['t_ms'] - 1000 < prev[1]:
                try:
                    m = wire.strict_decode_lenient_len(a['data'])
                except wire.Reject:
                    m = None
                if m is None or m['flags'] & 0x8000 or not any(q_['cls'] & 0x8000 for q_ in m['qd']):
                    dropped.append((a['data'], a['t_ms']))
                    continue
            last[a['sock']] = (a['data'], a['t_ms'])
        return dropped

    def last_wire_sighting(self, ident: Tuple, before_g: int) -> Optional[Tuple[float, float, int]]:
        best = None
        for s in self.wire_sightings().get(ident, []):
            if s[2] < before_g:
                best = s
        if best is not None and best[1] == 0:
            return None
        return best

    def last_sighting(self, ident: Tuple, before_g: int) -> Optional[Tuple[float, float, int]]:
        """Last (now_ms, ttl_eff, g) with g < before_g at which the host was shown `ident`; a TTL-0 showing clears."""
        best = None
        for s in self.sightings.get(ident, []):
            if s[2] < before_g:
                best = s
        if best is not None and best[1] == 0:
            return None
        return best

    def svc_idents(self, k: int, which: List[str]) -> List[Tuple[Tuple, int]]:
        s = rp.Svc(self.sc['services'][k % len(self.sc['services'])])
        out: List[Tuple[Tuple, int]] = []
        if 'ptr' in which:
            out.append((s.ptr(), s.other_ttl))
        if 'srv' in which:
            out.append((s.srv(), s.host_ttl))
        if 'txt' in which:
            out.append((s.txt(), s.other_ttl))
        if 'addr' in which:
            out += [(a, s.host_ttl) for a in s.addresses()]
        return out

    def qname(self, q: List[Any]) -> Tuple[str, int, bool]:
        tk, k, sp, qtype, qu = q
        d = self.sc['services'][k % len(self.sc['services'])]
        if tk == 'type':
            name = d['type']
        elif tk == 'inst':
            name = d['name']
        elif tk == 'host':
            name = d['server']
        elif tk == 'enum':
            name, qtype = rp.ENUM, 12
        else:
            name = 'ghost%d._http._tcp.local.' % k
        return gen.recase(name, sp % 4), qtype, bool(qu)

    # -- execution ---------------------------------------------------------------------------------
    def execute(self) -> None:
        j = self.sc.get('jitter', {'seed': 1})
        import zeroconf._handlers.query_handler as qh

        with sim.World(jitter_seed=j.get('seed', 1), jitter_explicit=j.get('explicit'), jitter_keyed=j.get('keyed', False)) as w:
            self.world = w
            run = self
            orig = qh.QueryHandler.handle_assembled_query

            def observed(self_, packets, addr, port, transport, v6_flow_scope, *rest):
                # harness-side observation of which packets were assembled into one query, and when
                w.gseq += 1
                run.assemblies.append({'g': w.gseq, 't_ms': w.now_ms, 'datas': [p.data for p in packets], 'addr': addr,
                                       'port': port})
                return orig(self_, packets, addr, port, transport, v6_flow_scope, *rest)

            w._patch(qh.QueryHandler, 'handle_assembled_query', observed)
            w.run(self._main(w))
            self.errors = list(w.errors)
            self.draws = list(w.jitter.draws)
            self._decode_trace(w)
            self.end_ms = w.now_ms

    async def _main(self, w: sim.World) -> None:
        from zeroconf import RecordUpdateListener

        socks, single = SOCKS[self.sc.get('socks', 'v4')]
        host = w.add_host('R', socks=socks, single=single)
        self.host = host
        await host.zc.async_wait_for_start()
        run = self

        class Spy(RecordUpdateListener):
            def async_update_records(self, zc_: Any, now: float, recs: List[Any]) -> None:
                w.gseq += 1
                for r in recs:
                    if r.new is r.old:
                        continue   # purge report, not a sighting
                    ident = ident_of_lib_record(r.new)
                    if ident is not None:
                        run.sightings.setdefault(ident, []).append((now, r.new.ttl, w.gseq))

            def async_update_records_complete(self) -> None:
                pass

        host.zc.async_add_listener(Spy(), None)

        class Tap:
            """records what arrives on a socket before the library sees it"""

            def __init__(self, proto: Any, fileno: int) -> None:
                self._proto, self._fileno = proto, fileno

            def datagram_received(self, data: bytes, addr: Any) -> None:
                run.arrivals.append({'t_ms': w.now_ms, 'g': w.gseq, 'data': bytes(data), 'sock': self._fileno})
                self._proto.datagram_received(data, addr)

            def __getattr__(self, name: str) -> Any:
                return getattr(self._proto, name)

        for ep_ in host.endpoints:
            ep_.proto = Tap(ep_.proto, ep_.sock.fileno())
        for d in self.sc['services']:
            if d.get('late'):
                self.infos.append(None)        # registered by a 'register' event, its announcements not awaited
                continue
            info = sim.make_service_info(d)
            task = await host.azc.async_register_service(info)
            await task
            self.infos.append(info)
            self.model.register(d)
        # the registry may have reached its state through updates (async_update_service with a fresh ServiceInfo)
        for up in self.sc.get('pre_updates', []):
            k = up['svc'] % len(self.sc['services'])
            d = dict(self.sc['services'][k])
            d.update(up['set'])
            info = sim.make_service_info(d)
            task = await host.azc.async_update_service(info)
            await task
            self.model.unregister(self.sc['services'][k]['name'])
            self.model.register(d)
            self.sc['services'][k] = d
            self.infos[k] = info
        self.peer_listener = None
        if self.sc.get('peer'):
            from zeroconf.asyncio import AsyncServiceBrowser

            peer = w.add_host('P', socks=[('v4', '10.0.0.50')] if host.sock_spec[0][0] == 'v4' else [('v6', 'fe80::50')])
            await peer.zc.async_wait_for_start()
            self.peer_listener = sim.RecListener(w, 'peer')
            types = sorted({d['type'] for d in self.sc['services']})
            self.peer_browser = AsyncServiceBrowser(peer.zc, types if len(types) > 1 else types[0], listener=self.peer_listener)
        await asyncio.sleep(self.sc.get('settle_ms', 2000) / 1000.0)
        self.t_settled_ms = w.now_ms
        self.n_trace_settled = len(w.net.trace)
        last_ms = w.now_ms
        for ev in self.sc['events']:
            if 'quarter' in ev:
                k, what = ev['quarter']
                ids = self.svc_idents(k, [what])
                if ids:
                    ident, _ = ids[0]
                    s = self.last_sighting(ident, 10**12)
                    if s is not None:
                        target = s[0] + 250.0 * s[1] + ev.get('delta', 0)
                        if target > w.now_ms:
                            await advance_exact(w, s[0], 250.0 * s[1] + ev.get('delta', 0))
            else:
                await advance_exact(w, last_ms, ev.get('gap', 0))
            last_ms = w.now_ms
            await self._do_event(w, host, ev)
        await asyncio.sleep(self.sc.get('tail_ms', 2500) / 1000.0)
        for t in getattr(self, 'late_tasks', []):
            if t.done() and not t.cancelled() and t.exception() is not None:
                if any(e['kind'] == 'close' for e in self.api_events) and type(t.exception()).__name__ in (
                        'NotRunningException', 'NonUniqueNameException', 'EventLoopBlocked'):
                    continue      # the instance was closed while the registration was under way: a documented outcome
                if getattr(self, 'unregistered_while_probing', 0) and type(t.exception()).__name__ == 'NonUniqueNameException':
                    continue      # given up by the application while probing, and the name registered again meanwhile
                raise HarnessError(f'background registration failed: {t.exception()!r}')

    def _src(self, ev: Dict[str, Any]) -> Tuple:
        fam = ev.get('family', 'v4')
        port = ev.get('port', 5353)
        c = ev.get('client', 0)
        if fam == 'v6':
            return (CLIENTS6[c % 3], port, 0, 2)
        return (CLIENTS4[c % 3], port)

    def _pick_endpoint(self, host: sim.Host, ev: Dict[str, Any]) -> sim.FakeTransport:
        fam = ev.get('family', 'v4')
        eps = []
        for e in host.endpoints:
            efam = 'v6' if e.sock.family == 10 else 'v4'
            if efam == fam or (fam == 'v4' and e.sock.dual):
                eps.append(e)
        if not eps:
            eps = host.endpoints
        return eps[ev.get('sock', 0) % len(eps)]

    async def _do_event(self, w: sim.World, host: sim.Host, ev: Dict[str, Any]) -> None:
        kind = ev['kind']
        if kind == 'query':
            questions = [self.qname(q) for q in ev['qs']]
            exp0, _, _, _ = self.model.answers([(n, t) for n, t, _ in questions], [])
            cands = sorted(i for i in exp0 if i[0] != 'NSEC')
            known: List[Tuple[Tuple, int]] = []
            for idx, mode in ev.get('ka', []):
                if not cands:
                    break
                ident = cands[idx % len(cands)]
                if any(ident == k_[0] for k_ in known):
                    continue
                ttl = exp0[ident]
                half = ttl // 2
                known.append((ident, {'below': half, 'above': half + 1, 'full': ttl, 'zero': 0}[mode]))
            ep = self._pick_endpoint(host, ev)
            if self.sc.get('exclude_f12') and ep.sock.family == 10:
                # open finding F12: AAAA records parsed on an IPv6 socket carry its scope id and never match the
                # responder's own (scope-less) records; excluded by construction, counted
                n_before = len(known)
                known = [k_ for k_ in known if k_[0][0] != 'AAAA']
                self.excluded_f12 += n_before - len(known)
            ka_rrs = [rp.wire_rr_of_ident(i, t) for i, t in known]
            auth = []
            if ev.get('probe'):
                auth = [rp.wire_rr_of_ident(('PTR', '_http._tcp.local.', 'probe-candidate._http._tcp.local.'), 4500)]
            data = rp.build_query(questions, [] if ev.get('probe') and not ev.get('probe_with_ka') else ka_rrs,
                                  qid=ev.get('id', 0), tc=bool(ev.get('tc')), authorities=auth)
            if ev.get('pad'):
                data = data  # identical content unless 'variant' differs; see C12 trains
            src = self._src(ev)
            if ep.sock.family == 10 and len(src) == 2:
                src = ('::ffff:' + src[0], src[1], 0, ep.sock.getsockname()[3])
            w.gseq += 1
            rec = {'g': w.gseq, 't_ms': w.now_ms, 'questions': questions, 'known': known, 'src': src, 'port': src[1],
                   'sock': ep.sock.fileno(), 'sock_family': 'v6' if ep.sock.family == 10 else 'v4',
                   'probe': bool(ev.get('probe')), 'tc': bool(ev.get('tc')), 'legacy': src[1] != 5353, 'id': ev.get('id', 0),
                   'data': data, 'n_trace': len(w.net.trace), 'ev': ev, 'closed_ep': ep.closed}
            rec['exp'] = self.model.answers([(n, t) for n, t, _ in questions], [] if rec['probe'] else known)
            rec['per_question'] = [self.model.answers([(n, t)], [] if rec['probe'] else known)[0] for n, t, _ in questions]
            self.queries.append(rec)
            self._deliver(w, ep, data, src)
        elif kind == 'sighting':
            ids = self.svc_idents(ev['svc'], ev.get('which', ['ptr', 'srv', 'txt', 'addr']))
            rrs = [rp.wire_rr_of_ident(i, 0 if ev.get('ttl_mode') == 'zero' else t, flush=i[0] != 'PTR') for i, t in ids]
            data = wire.encode({'id': 0, 'flags': 0x8400, 'qd': [], 'an': rrs, 'ns': [], 'ar': []})
            ep = self._pick_endpoint(host, {'family': 'v4' if host.sock_spec[0][0] == 'v4' else 'v6', 'sock': 0})
            src = ('10.0.0.200', 5353) if ep.sock.family != 10 else ('fe80::200', 5353, 0, 2)
            w.gseq += 1
            self.api_events.append({'kind': 'sighting', 'g': w.gseq, 't_ms': w.now_ms, 'idents': [i for i, _ in ids]})
            self._deliver(w, ep, data, src)
        elif kind == 'raw':
            ep = self._pick_endpoint(host, ev)
            self._deliver(w, ep, bytes.fromhex(ev['hex']), self._src(ev))
        elif kind == 'register':
            k = ev['svc'] % len(self.infos)
            d = self.sc['services'][k]

            async def late_register() -> None:
                info = sim.make_service_info(d)
                self.in_flight[k] = info
                if d.get('ttl_arg') is not None:
                    await host.azc.async_register_service(info, ttl=d['ttl_arg'])
                else:
                    await host.azc.async_register_service(info)      # returns after probing; the announcements go on in a task
                if self.in_flight.pop(k, None) is None:
                    return            # unregistered by the application while it was probing: it is not registered
                self.infos[k] = info
                self.model.register(d)
                w.gseq += 1
                self.api_events.append({'kind': 'registered', 'g': w.gseq, 't_ms': w.now_ms, 'svc': k})

            if self.infos[k] is None:
                self.late_tasks = getattr(self, 'late_tasks', []) + [asyncio.ensure_future(late_register())]
        elif kind == 'reregister':
            # the application brings a withdrawn service back under the same name with other data, without probing
            # (async_update_service on a name that is not registered adds it); its announcements are not awaited
            k = ev['svc'] % len(self.infos)
            if self.infos[k] is None and not any(e['kind'] == 'close' for e in self.api_events):
                d = {kk: vv for kk, vv in self.sc['services'][k].items() if kk != 'late'}
                d.update(ev['set'])
                info = sim.make_service_info(d)
                await host.azc.async_update_service(info)
                self.infos[k] = info
                self.model.register(d)
                self.sc['services'][k] = d
                w.gseq += 1
                self.api_events.append({'kind': 'registered', 'g': w.gseq, 't_ms': w.now_ms, 'svc': k, 'desc': dict(d), 're': True})
        elif kind == 'unregister':
            k = ev['svc'] % len(self.infos)
            info = self.infos[k]
            probing = False
            if info is None and k in self.in_flight:
                # the application unregisters a service whose registration call has not returned yet (it is still probing)
                info = self.in_flight.pop(k)
                probing = True
                self.unregistered_while_probing = getattr(self, 'unregistered_while_probing', 0) + 1
            if info is not None:
                w.gseq += 1
                self.api_events.append({'kind': 'unregister', 'g': w.gseq, 't_ms': w.now_ms, 'svc': k,
                                        'desc': dict(self.sc['services'][k])})
                self.infos[k] = None
                if not probing:
                    self.model.unregister(self.sc['services'][k]['name'])
                if ev.get('fresh_object'):
                    # the application unregisters with a ServiceInfo it builds anew from the same data, not with the registered object
                    info = sim.make_service_info({kk: vv for kk, vv in self.sc['services'][k].items() if kk != 'late'})
                task = await host.azc.async_unregister_service(info)
                if ev.get('await', True):
                    await task
                w.gseq += 1
                self.api_events.append({'kind': 'unregister_done', 'g': w.gseq, 't_ms': w.now_ms, 'svc': k})
        elif kind == 'close':
            w.gseq += 1
            self.api_events.append({'kind': 'close', 'g': w.gseq, 't_ms': w.now_ms})
            await host.azc.async_close()
            host.closed = True
            w.gseq += 1
            self.api_events.append({'kind': 'close_done', 'g': w.gseq, 't_ms': w.now_ms})

    @staticmethod
    def _deliver(w: sim.World, ep: sim.FakeTransport, data: bytes, src: Tuple) -> None:
        if ep.closed:
            return
        w.gseq += 1
        try:
            ep.proto.datagram_received(data, src)
        except HarnessError:
            raise
        except BaseException as e:  # noqa
            if isinstance(e, (KeyboardInterrupt, SystemExit)):
                raise
            w._on_loop_exception(w.loop, {'message': 'exception in datagram_received', 'exception': e})

    def _decode_trace(self, w: sim.World) -> None:
        for e in w.net.trace:
            if e['host'] != 'R':
                continue
            m = sim.decode_trace_entry(e)
            d = {'t_ms': e['t'] * 1000.0, 'g': e['g'], 'dst': e['dst'], 'port': e['port'], 'sock': e['sock'],
                 'family': e['family'], 'mc': e['dst'] in (sim.MDNS4, sim.MDNS6), 'msg': m, 'seq': e['seq'], 'len': len(e['data']),
                 'data': e['data']}
            if m is not None:
                d['response'] = bool(m['flags'] & 0x8000)
                d['an'] = [(rp.ident_of_wire_rr(r), r['ttl'], bool(r['cls'] & 0x8000)) for r in m['an']]
                d['ar'] = [(rp.ident_of_wire_rr(r), r['ttl'], bool(r['cls'] & 0x8000)) for r in m['ar']]
                d['owners'] = [wire.name_text(r['name']).lower() for r in m['an'] + m['ar']]
            self.sends.append(d)

    def expected(self, q: Dict[str, Any]):
        return self.model.answers([(n, t) for n, t, _ in q['questions']], [] if q['probe'] else q['known'])
