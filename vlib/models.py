"""Reference models: small, obviously-correct, independent of the library's data structures."""
from __future__ import annotations

import re
from typing import Any, Dict, List, Optional, Tuple

# ----------------------------------------------------------------------------------------------------
# NameSpec: three-valued service-name grammar, written from the docstring of service_type_name and the
# statement of C19 only.

ACCEPT, REJECT, UNSPECIFIED = 'ACCEPT', 'REJECT', 'UNSPECIFIED'
_LETTER = set('abcdefghijklmnopqrstuvwxyzABCDEFGHIJKLMNOPQRSTUVWXYZ')
_DIGIT = set('0123456789')


def name_verdict(s: str, strict: bool) -> Tuple[str, Optional[str], str]:
    """-> (verdict, expected return value or None when unspecified, reason)."""
    if len(s) > 256:
        return REJECT, None, 'longer than 256 characters'
    low = s.lower()
    trailer = None
    for tr in ('._tcp.local.', '._udp.local.'):
        if s.endswith(tr):
            trailer = tr
    if trailer is None and low.endswith(('._tcp.local.', '._udp.local.')):
        return UNSPECIFIED, None, 'protocol/local suffix matches only case-insensitively'
    has_protocol = trailer is not None
    if has_protocol:
        head = s[:-len(trailer)]
    elif strict:
        return REJECT, None, 'strict: must end with ._tcp.local. or ._udp.local.'
    elif s.endswith('.local.'):
        head = s[:-len('.local.')]
        trailer = None
    elif low.endswith('.local.'):
        return UNSPECIFIED, None, 'local suffix matches only case-insensitively'
    else:
        return REJECT, None, 'must end with .local.'
    parts = head.split('.')
    service = ''
    if has_protocol:
        service = parts.pop()
        if not service:
            return REJECT, None, 'no service label'
        if service[0] != '_':
            return REJECT, None, 'service label must start with an underscore'
        body = service[1:]
        if not body:
            return REJECT, None, 'empty service name after the underscore'
        allowed = _LETTER | _DIGIT | {'-'} | (set() if strict else {'_'})
        if any(ch not in allowed for ch in body):
            return REJECT, None, 'illegal character in service name'
        if strict and len(body) > 15:
            return REJECT, None, 'service name longer than 15 characters'
        if '--' in body or body[0] == '-' or body[-1] == '-':
            return REJECT, None, 'hyphen placement'
        if not any(ch in _LETTER for ch in body):
            return REJECT, None, 'service name needs a letter'
        if parts == ['']:
            return REJECT, None, 'name starts with a dot (empty instance)'
    # what is left is empty (a bare type), an instance, or <sub>._sub
    unspecified = None
    if parts and parts[-1] == '_sub':
        parts = parts[:-1]
        if not parts or parts[0] == '':
            return REJECT, None, '_sub without a subtype name'
        if len(parts) > 1:
            unspecified = 'dotted subtype'
    if parts:
        if any(p == '' for p in parts):
            unspecified = unspecified or 'empty label inside the instance portion'
        inst = '.'.join(parts)
        if len(inst.encode('utf-8')) > 63:
            return REJECT, None, 'instance longer than 63 bytes'
        if any(ord(ch) < 0x20 or ord(ch) == 0x7F for ch in inst):
            return REJECT, None, 'control character in instance'
    if unspecified:
        return UNSPECIFIED, None, unspecified
    if has_protocol:
        return ACCEPT, service + trailer, 'ok'
    return ACCEPT, None, 'ok (bare .local. form: return value not specified)'


# ----------------------------------------------------------------------------------------------------
# RFC 6763 section 6 TXT parser

def txt_parse(data: bytes) -> List[Tuple[bytes, Optional[bytes]]]:
    out: List[Tuple[bytes, Optional[bytes]]] = []
    i = 0
    while i < len(data):
        ln = data[i]
        item = data[i + 1:i + 1 + ln]
        if len(item) != ln:
            raise ValueError('TXT item runs past the end')
        i += 1 + ln
        if not item:
            continue
        eq = item.find(b'=')
        if eq < 0:
            out.append((item, None))
        else:
            out.append((item[:eq], item[eq + 1:]))
    return out
