"""Work meter: counts executed lines and Python calls inside chosen code objects via sys.monitoring (3.12).

Exceeding the fixed budget raises BudgetExceeded *inside* the measured code, so a genuine runaway loop
terminates the case instead of hanging the run.  No wall clock is involved.
"""
from __future__ import annotations

import sys
import types
from typing import Iterable, List

TOOL_ID = 3


class BudgetExceeded(BaseException):
    pass


def code_objects_of(*objs) -> List[types.CodeType]:
    out: List[types.CodeType] = []
    seen = set()

    def add(code: types.CodeType) -> None:
        if id(code) in seen:
            return
        seen.add(id(code))
        out.append(code)
        for c in code.co_consts:
            if isinstance(c, types.CodeType):
                add(c)

    for o in objs:
        if isinstance(o, types.ModuleType):
            for v in vars(o).values():
                if getattr(v, '__module__', None) != o.__name__:
                    continue
                if isinstance(v, types.FunctionType):
                    add(v.__code__)
                elif isinstance(v, type):
                    for m in vars(v).values():
                        f = getattr(m, '__func__', m)
                        if isinstance(f, types.FunctionType):
                            add(f.__code__)
                        elif isinstance(m, property) and m.fget is not None:
                            add(m.fget.__code__)
        elif isinstance(o, types.FunctionType):
            add(o.__code__)
    return out


class WorkMeter:
    def __init__(self, codes: Iterable[types.CodeType], max_lines: int, max_calls: int) -> None:
        self.codes = list(codes)
        self.max_lines = max_lines
        self.max_calls = max_calls
        self.lines = 0
        self.calls = 0
        self._installed = False

    def install(self) -> None:
        mon = sys.monitoring
        if mon.get_tool(TOOL_ID) is None:
            mon.use_tool_id(TOOL_ID, 'verif-meter')
        ev = mon.events
        mon.register_callback(TOOL_ID, ev.LINE, self._on_line)
        mon.register_callback(TOOL_ID, ev.PY_START, self._on_start)
        for c in self.codes:
            mon.set_local_events(TOOL_ID, c, ev.LINE | ev.PY_START)
        self._installed = True

    def uninstall(self) -> None:
        mon = sys.monitoring
        for c in self.codes:
            mon.set_local_events(TOOL_ID, c, 0)
        mon.register_callback(TOOL_ID, mon.events.LINE, None)
        mon.register_callback(TOOL_ID, mon.events.PY_START, None)
        mon.free_tool_id(TOOL_ID)
        self._installed = False

    def reset(self) -> None:
        self.lines = 0
        self.calls = 0

    def _on_line(self, code, line) -> None:
        self.lines += 1
        if self.lines > self.max_lines:
            self.lines = -10**12  # let unwinding code run without re-raising
            raise BudgetExceeded(f'more than {self.max_lines} lines executed')

    def _on_start(self, code, offset) -> None:
        self.calls += 1
        if self.calls > self.max_calls:
            self.calls = -10**12
            raise BudgetExceeded(f'more than {self.max_calls} calls executed')
