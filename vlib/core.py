"""Shared plumbing: Violation, statistics, case hashing, ddmin."""
from __future__ import annotations

import hashlib
import json
from collections import Counter
from typing import Any, Callable, Dict, List, Optional, Sequence


class Violation(Exception):
    """The property under test was observed to fail on a concrete case."""

    def __init__(self, msg: str, details: Any = None, tag: Optional[str] = None):
        super().__init__(msg)
        self.msg = msg
        self.details = details
        # tag: short machine-readable bucket (oracle clause); used for known-finding signatures
        self.tag = tag or msg.split(':')[0][:60]

    def to_json(self) -> Dict[str, Any]:
        return {'msg': self.msg, 'tag': self.tag, 'details': jsonable(self.details)}


class HarnessError(Exception):
    """Something is wrong with the harness itself (never reported as a violation)."""


def jsonable(x: Any, depth: int = 0) -> Any:
    if depth > 8:
        return repr(x)[:200]
    if x is None or isinstance(x, (bool, int, float, str)):
        return x
    if isinstance(x, bytes):
        return 'hex:' + (x.hex() if len(x) <= 96 else x[:96].hex() + '...(%d bytes)' % len(x))
    if isinstance(x, dict):
        return {str(k): jsonable(v, depth + 1) for k, v in x.items()}
    if isinstance(x, (list, tuple, set, frozenset)):
        return [jsonable(v, depth + 1) for v in x]
    return repr(x)[:400]


def case_hash(case: Any) -> str:
    return hashlib.sha1(json.dumps(case, sort_keys=True, default=repr).encode()).hexdigest()


def truncate(x: Any, limit: int = 1500) -> Any:
    s = json.dumps(jsonable(x), sort_keys=True)
    if len(s) <= limit:
        return jsonable(x)
    return {'truncated_json': s[:limit] + '...', 'full_len': len(s)}


class Stats:
    """What one run actually explored."""

    def __init__(self) -> None:
        self.evaluations = 0
        self.nontrivial_hashes: set = set()
        self.all_hashes: set = set()
        self.classes: Counter = Counter()
        self.samples: List[Any] = []
        self.known: Counter = Counter()
        self.excluded: Counter = Counter()
        self.maxima: Dict[str, float] = {}

    def record(self, case: Any, info: Optional[Dict[str, Any]]) -> None:
        self.evaluations += int(info.get('evaluations', 1)) if info else 1
        h = case_hash(case)
        self.all_hashes.add(h)
        if not info:
            return
        for c in info.get('classes', ()):
            self.classes[c] += 1
        for k, n in info.get('excluded', {}).items():
            self.excluded[k] += n
        for k, v in info.get('max', {}).items():
            if v > self.maxima.get(k, float('-inf')):
                self.maxima[k] = v
        if info.get('nontrivial'):
            if h not in self.nontrivial_hashes:
                self.nontrivial_hashes.add(h)
                if len(self.samples) < 4 and (len(self.nontrivial_hashes) in (1, 7, 40, 200)):
                    self.samples.append(truncate(info.get('sample', case)))

    def dump(self) -> Dict[str, Any]:
        return {
            'evaluations': self.evaluations,
            'nontrivial_hashes': sorted(self.nontrivial_hashes),
            'n_distinct': len(self.all_hashes),
            'classes': dict(self.classes),
            'samples': self.samples,
            'known': dict(self.known),
            'excluded': dict(self.excluded),
            'maxima': self.maxima,
        }

    @staticmethod
    def merge(dumps: Sequence[Dict[str, Any]]) -> Dict[str, Any]:
        out = {
            'evaluations': 0,
            'nontrivial': set(),
            'n_distinct': 0,
            'classes': Counter(),
            'samples': [],
            'known': Counter(),
            'excluded': Counter(),
            'maxima': {},
        }
        for d in dumps:
            out['evaluations'] += d['evaluations']
            out['nontrivial'].update(d['nontrivial_hashes'])
            out['n_distinct'] += d['n_distinct']
            out['classes'].update(d['classes'])
            out['known'].update(d['known'])
            out['excluded'].update(d['excluded'])
            for k, v in d['maxima'].items():
                if v > out['maxima'].get(k, float('-inf')):
                    out['maxima'][k] = v
            for s in d['samples']:
                if len(out['samples']) < 5:
                    out['samples'].append(s)
        return out


def ddmin(items: List[Any], fails: Callable[[List[Any]], bool], max_tests: int = 400) -> List[Any]:
    """Classic delta debugging over a list; `fails(sub)` must be deterministic."""
    tests = 0
    n = 2
    cur = list(items)
    while len(cur) >= 2 and tests < max_tests:
        chunk = max(1, len(cur) // n)
        subsets = [cur[i:i + chunk] for i in range(0, len(cur), chunk)]
        reduced = False
        for i, sub in enumerate(subsets):
            comp = [x for j, s in enumerate(subsets) if j != i for x in s]
            tests += 1
            if comp and fails(comp):
                cur = comp
                n = max(n - 1, 2)
                reduced = True
                break
            if tests >= max_tests:
                break
        if not reduced:
            if n >= len(cur):
                break
            n = min(len(cur), n * 2)
    return cur
