"""Hypothesis generators shared by the checks.  Everything produced is JSON-serialisable."""
from __future__ import annotations

import random
from typing import Any, Dict, List, Optional

from hypothesis import strategies as st

LOWER = 'abcdefghijklmnopqrstuvwxyz'
ASCII_LABEL = LOWER + LOWER.upper() + '0123456789-_ '
UTF2 = 'éüñßøĳλжя'          # 2-byte
UTF3 = '日本語€✓ก'            # 3-byte
UTF4 = '😀𝄞𐍈'               # 4-byte
LABEL_ALPHABET = ASCII_LABEL * 3 + UTF2 + UTF3 + UTF4

BASE_SUFFIXES = [
    'local.', '_tcp.local.', '_udp.local.', '_http._tcp.local.', '_ipp._tcp.local.',
    '_printer._sub._http._tcp.local.', '_services._dns-sd._udp.local.', 'host.local.', 'Host-2.local.',
]

BOUNDARY_LABEL_LENS = [1, 2, 15, 16, 62, 63, 63, 64, 65]


def fit_bytes(chars: str, nbytes: int) -> str:
    """Trim/pad `chars` so that its UTF-8 encoding is exactly nbytes long (construction, no rejection)."""
    out = []
    used = 0
    for ch in chars:
        b = len(ch.encode('utf-8'))
        if used + b > nbytes:
            continue
        out.append(ch)
        used += b
        if used == nbytes:
            break
    out.append('x' * (nbytes - used))
    return ''.join(out)


@st.composite
def label(draw, max_bytes: int = 70, boundary: bool = True) -> str:
    if boundary and draw(st.integers(0, 9)) < 2:
        n = draw(st.sampled_from([l for l in BOUNDARY_LABEL_LENS if l <= max_bytes] or [1]))
    else:
        n = draw(st.integers(1, min(max_bytes, 20))) if draw(st.integers(0, 4)) else draw(st.integers(1, max_bytes))
    chars = draw(st.text(alphabet=LABEL_ALPHABET, min_size=0, max_size=min(n, 24)))
    return fit_bytes(chars, n)


def recase(s: str, mode: int) -> str:
    if mode == 1:
        return s.upper()
    if mode == 2:
        return s.lower()
    if mode == 3:
        return s.swapcase()
    if mode == 4:
        return s.title()
    return s


def clamp_name(name: str, limit: int = 253) -> str:
    """Drop leading labels (then trim the first label) until len(name) <= limit characters."""
    while len(name) > limit:
        first, _, rest = name.partition('.')
        if rest and len(rest) >= 8:
            excess = len(name) - limit
            if len(first) > excess:
                name = first[: len(first) - excess] + '.' + rest
            else:
                name = rest
        else:
            name = name[-limit:]
            if name.startswith('.'):
                name = 'x' + name[1:]
    return name


@st.composite
def name_pool(draw, min_size: int = 2, max_size: int = 8, max_label: int = 70, long_names: bool = True, root: bool = False) -> List[str]:
    """Names built from shared suffixes so that suffix/prefix/case-variant sharing is the norm."""
    pool: List[str] = []
    if root and draw(st.integers(0, 5)) == 0:
        pool.append('.')      # the root: fully qualified, no labels at all (an SRV target '.' means "service not available")
    n = draw(st.integers(min_size, max_size))
    if max_label > 63 and draw(st.integers(0, 7)):
        max_label = 63   # oversize labels (expected rejection) only in one case out of eight
    for _ in range(n):
        if [x for x in pool if x != '.'] and draw(st.integers(0, 2)):
            base = draw(st.sampled_from([x for x in pool if x != '.']))
            labels = base[:-1].split('.')
            cut = draw(st.integers(0, len(labels) - 1))
            suffix = '.'.join(labels[cut:]) + '.'
        else:
            suffix = draw(st.sampled_from(BASE_SUFFIXES))
        suffix = recase(suffix, draw(st.sampled_from([0, 0, 0, 1, 2, 3, 4])))
        k = draw(st.sampled_from([0, 1, 1, 1, 2, 3]))
        prefix = [draw(label(max_label)) for _ in range(k)]
        name = '.'.join(prefix + [suffix])
        if long_names and draw(st.integers(0, 11)) == 0:
            # aim at the 253-character limit
            want = draw(st.sampled_from([250, 252, 253, 253]))
            while len(name) < want:
                room = want - len(name) - 1
                if room <= 0:
                    break
                name = fit_bytes('', min(room, draw(st.sampled_from([20, 40, 63]))))  + '.' + name
        pool.append(clamp_name(name))
    return pool


TTLS = [0, 1, 2, 119, 120, 1124, 1125, 2250, 4500, 2**31 - 1, 2**31, 2**32 - 1]
ttl_st = st.one_of(st.sampled_from(TTLS), st.integers(0, 2**32 - 1), st.integers(0, 10000))
CLASSES = [1, 1, 1, 1, 1, 3, 255, 0x7FFF, 254]


@st.composite
def record(draw, names: List[str], kinds: Optional[List[str]] = None, max_rdata: int = 300) -> Dict[str, Any]:
    kind = draw(st.sampled_from(kinds or ['A', 'AAAA', 'PTR', 'CNAME', 'TXT', 'SRV', 'HINFO', 'NSEC']))
    r: Dict[str, Any] = {
        'k': kind,
        'name': draw(st.sampled_from(names)),
        'cls': draw(st.sampled_from(CLASSES)),
        'flush': draw(st.booleans()),
        'ttl': draw(ttl_st),
    }
    if kind == 'A':
        r['addr'] = draw(st.binary(min_size=4, max_size=4)).hex()
    elif kind == 'AAAA':
        r['addr'] = draw(st.binary(min_size=16, max_size=16)).hex()
    elif kind in ('PTR', 'CNAME'):
        r['target'] = draw(st.sampled_from(names))
    elif kind == 'TXT':
        n = draw(st.one_of(st.integers(0, 12), st.integers(0, max_rdata)))
        r['txt_len'] = n
        r['txt_seed'] = draw(st.integers(0, 255))
    elif kind == 'SRV':
        r['prio'] = draw(st.sampled_from([0, 1, 255, 256, 65535]))
        r['weight'] = draw(st.sampled_from([0, 2, 127, 128, 65534]))
        r['port'] = draw(st.one_of(st.sampled_from([0, 80, 127, 128, 5353, 65535]), st.integers(0, 65535)))
        r['target'] = draw(st.sampled_from(names))
    elif kind == 'HINFO':
        r['cpu'] = draw(label(255, boundary=False)) if draw(st.booleans()) else fit_bytes('', draw(st.sampled_from([0, 1, 254, 255])))
        r['os'] = draw(st.text(alphabet=LABEL_ALPHABET + '.', max_size=12))
    elif kind == 'NSEC':
        r['next'] = draw(st.sampled_from(names))
        r['types'] = sorted(draw(st.sets(st.one_of(st.sampled_from([1, 12, 16, 28, 33, 47, 255]), st.integers(1, 255)),
                                          min_size=1, max_size=6)))
    return r


def txt_bytes(n: int, seed: int) -> bytes:
    """Deterministic filler for TXT rdata of length n (opaque to the codec)."""
    if n <= 0:
        return b''
    rnd = random.Random(seed * 7919 + n)
    if n <= 64:
        return bytes(rnd.randrange(256) for _ in range(n))
    block = bytes(rnd.randrange(256) for _ in range(64))
    return (block * (n // 64 + 1))[:n]


@st.composite
def question(draw, names: List[str]) -> Dict[str, Any]:
    return {
        'name': draw(st.sampled_from(names)),
        'type': draw(st.one_of(st.sampled_from([1, 12, 16, 28, 33, 47, 255, 13, 5]), st.integers(0, 65535))),
        'cls': draw(st.sampled_from(CLASSES)),
        'qu': draw(st.booleans()),
    }
