"""Coverage-guided stage (atheris / libFuzzer) for byte-level targets; the semantic oracle runs inside the target.

run_campaigns() starts one campaign from an empty corpus and one from a corpus of valid messages rendered by
the independent encoder, each in its own subprocess and scratch directory (removed afterwards).
"""
from __future__ import annotations

import json
import os
import random
import shutil
import subprocess
import sys
import tempfile
import time
from typing import Any, Dict, List, Optional

VERIF = os.path.dirname(os.path.dirname(os.path.abspath(__file__)))


def atheris_available() -> bool:
    return os.path.isdir(os.path.join(VERIF, '.deps', 'atheris'))


def seed_corpus(n: int, seed: int) -> List[bytes]:
    """Valid messages from the independent encoder (PRNG-owned; only seeds a fuzzer, not an oracle)."""
    from . import gen, msgcase, wire

    rnd = random.Random(seed)
    out = []
    for i in range(n):
        names = msgcase._bulk_names(rnd, [rnd.choice(gen.BASE_SUFFIXES), 'host.local.'], 60, rnd.randrange(4, 20))
        m: Dict[str, Any] = {'id': rnd.randrange(65536), 'flags': rnd.choice([0, 0x8400, 0x0200]), 'qd': [], 'an': [], 'ns': [], 'ar': []}
        for _ in range(rnd.randrange(0, 3)):
            m['qd'].append({'name': wire.labels_of(rnd.choice(names)), 'type': rnd.choice([1, 12, 16, 28, 33, 47, 255]),
                            'cls': rnd.choice([1, 0x8001])})
        for sec in ('an', 'ns', 'ar'):
            for _ in range(rnd.randrange(0, 4)):
                r = msgcase._bulk_record(rnd, names, 'all')
                if r['k'] == 'TXT':
                    r['txt_len'] = min(r['txt_len'], 40)
                m[sec].append(msgcase.to_wire_rr(r))
        out.append(wire.encode(m, compress=rnd.choice(['auto', 'none', 'chainy'])))
    return out


def run_campaigns(pid: str, seed: int, runs: int, max_len: int = 8966, timeout_s: int = 1500) -> Optional[Dict[str, Any]]:
    if not atheris_available():
        return {'coverage': {'fuzz_stage': 'skipped: atheris not installed (run ./setup.sh)'}}
    src = os.environ.get('VERIF_SRC_ACTIVE', '/repo/src')
    root = tempfile.mkdtemp(prefix=f'verif-fuzz-{pid}-')
    procs = []
    t0 = time.time()
    try:
        for label in ('empty', 'seeded'):
            d = os.path.join(root, label)
            os.makedirs(os.path.join(d, 'corpus'))
            os.makedirs(os.path.join(d, 'crashes'))
            if label == 'seeded':
                for i, b in enumerate(seed_corpus(200, seed)):
                    with open(os.path.join(d, 'corpus', f'seed{i:03d}'), 'wb') as f:
                        f.write(b)
            cmd = [sys.executable, '-m', 'vlib.fuzz_target', pid, src, os.path.join(d, 'corpus'),
                   f'-runs={runs}', f'-seed={seed if seed else 1}', f'-max_len={max_len}',
                   f'-artifact_prefix={os.path.join(d, "crashes")}/', '-print_final_stats=1', '-verbosity=0']
            log = open(os.path.join(d, 'log'), 'w')
            env = dict(os.environ, PYTHONHASHSEED='0')
            procs.append((label, d, subprocess.Popen(cmd, cwd=VERIF, stdout=log, stderr=subprocess.STDOUT, env=env), log))
        cov: Dict[str, Any] = {}
        violation = None
        for label, d, p, log in procs:
            try:
                p.wait(timeout=timeout_s)
            except subprocess.TimeoutExpired:
                p.kill()
                cov[f'fuzz_{label}_status'] = 'inconclusive: time budget hit'
            log.close()
            text = open(os.path.join(d, 'log'), errors='replace').read()
            stats = {}
            for line in text.splitlines():
                if line.startswith('stat::'):
                    k, _, v = line[6:].partition(':')
                    stats[k.strip()] = v.strip()
            cov[f'fuzz_{label}_execs'] = int(stats.get('number_of_executed_units', '0') or 0)
            cov[f'fuzz_{label}_corpus_files'] = len(os.listdir(os.path.join(d, 'corpus')))
            crashes = sorted(os.listdir(os.path.join(d, 'crashes')))
            cov[f'fuzz_{label}_crashes'] = len(crashes)
            if crashes and violation is None:
                data = open(os.path.join(d, 'crashes', crashes[0]), 'rb').read()
                violation = {'data': data, 'label': label, 'log_tail': text[-1500:]}
        cov['fuzz_wall_s'] = round(time.time() - t0, 1)
        res: Dict[str, Any] = {'coverage': cov}
        if violation is not None:
            res['violation_bytes'] = violation
        return res
    finally:
        shutil.rmtree(root, ignore_errors=True)
