"""Executor + RFC 6762 s10 reference model for C05 (cache lookup paths / purge) and C06 (ingestion / listener contract).

A history is a list of ops (programs as data; every op is total so any sublist is a valid history):
  ['resp', [rec, ...]]   rec = {'pick': int, 'from': 'any'|'cached', 'ttl': int, 'flush': bool, 'sp': int, 'var': int}
  ['tick', ms]
  ['add_listener'] | ['remove_listener', k] | ['readd_listener', k, q]   (C06)
  ['arm', k, 'first'|'second', 'remove'|'add', j]    listener k mutates the listener set from inside a callback (C06)
Datagrams are rendered by the independent encoder and injected into one real instance in the simulator, so records
travel AsyncListener -> RecordManager -> DNSCache and purges come from the engine's own 10 s timer.
"""
from __future__ import annotations

import asyncio
from typing import Any, Dict, List, Optional, Tuple

from . import sim, wire
from .core import HarnessError, Violation

OWNERS = [['h.local.', 'H.Local.'], ['g.local.', 'G.LOCAL.'], ['_t._tcp.local.', '_T._tcp.Local.'],
          ['i._t._tcp.local.', 'I._T._tcp.local.'], ['j._t._tcp.local.', 'J._t._TCP.local.']]
H, G, T, I, J = 0, 1, 2, 3, 4

# (kind, owner index, rdata variants); names inside rdata are given as (owner index) so they can be re-cased too
TEMPLATES: List[Tuple[str, int, List[Any]]] = [
    ('A', H, ['01010101', '02020202']),
    ('AAAA', H, ['fe80' + '00' * 13 + '01', 'fe80' + '00' * 13 + '02']),
    ('A', G, ['03030303', '04040404']),
    ('PTR', T, [I, J]),
    ('SRV', I, [(H, 80), (G, 80), (H, 81)]),
    ('TXT', I, ['00', '0161']),
    ('NSEC', I, [[1], [28]]),
    ('SRV', J, [(H, 80), (G, 80)]),
    ('NSEC', H, [[1], [28]]),
    ('HINFO', H, [('cpu', 'os'), ('CPU', 'os')]),
    ('UNKNOWN', H, ['aa', 'bb']),
]
KIND_TYPE = {'A': 1, 'PTR': 12, 'HINFO': 13, 'TXT': 16, 'AAAA': 28, 'SRV': 33, 'NSEC': 47, 'UNKNOWN': 99}
N_TEMPLATES_C05 = 9   # C05 vocabulary: A/AAAA/PTR/SRV/TXT/NSEC; C06 adds HINFO and an unknown type
PEER = ('10.0.0.9', 5353)


def resolve(rec: Dict[str, Any], n_templates: int, cached_ids: List[Tuple]) -> Tuple[int, int]:
    """-> (template index, variant index)"""
    if rec.get('from') == 'cached' and cached_ids:
        ident = cached_ids[rec['pick'] % len(cached_ids)]
        return ident_to_template(ident)
    ti = rec['pick'] % n_templates
    return ti, rec.get('var', 0) % len(TEMPLATES[ti][2])


def rr_of(ti: int, vi: int, sp: int, ttl: int, flush: bool) -> Dict[str, Any]:
    kind, owner, variants = TEMPLATES[ti]
    v = variants[vi]
    name = OWNERS[owner][sp % 2]
    if kind in ('A', 'AAAA'):
        rd: Dict[str, Any] = {'addr': bytes.fromhex(v)}
    elif kind == 'PTR':
        rd = {'target': wire.labels_of(OWNERS[v][(sp >> 1) % 2])}
    elif kind == 'SRV':
        rd = {'prio': 0, 'weight': 0, 'port': v[1], 'target': wire.labels_of(OWNERS[v[0]][(sp >> 1) % 2])}
    elif kind == 'TXT':
        rd = {'txt': bytes.fromhex(v)}
    elif kind == 'NSEC':
        rd = {'next': wire.labels_of(OWNERS[owner][0]), 'types': list(v)}
    elif kind == 'HINFO':
        rd = {'cpu': v[0].encode(), 'os': v[1].encode()}
    else:
        rd = {'raw': bytes.fromhex(v)}
    return {'name': wire.labels_of(name), 'type': KIND_TYPE[kind], 'cls': 1 | (0x8000 if flush else 0), 'ttl': ttl, 'rd': rd}


def ident_of_template(ti: int, vi: int) -> Tuple:
    kind, owner, variants = TEMPLATES[ti]
    v = variants[vi]
    base = (OWNERS[owner][0], KIND_TYPE[kind], 1)
    if kind in ('A', 'AAAA'):
        return base + (v,)
    if kind == 'PTR':
        return base + (OWNERS[v][0],)
    if kind == 'SRV':
        return base + (0, 0, v[1], OWNERS[v[0]][0])
    if kind == 'TXT':
        return base + (v,)
    if kind == 'NSEC':
        return base + (OWNERS[owner][0], tuple(v))
    if kind == 'HINFO':
        return base + v
    return base + (v,)


_IDENT_INDEX: Dict[Tuple, Tuple[int, int]] = {}
for _ti, (_k, _o, _vs) in enumerate(TEMPLATES):
    for _vi in range(len(_vs)):
        _IDENT_INDEX[ident_of_template(_ti, _vi)] = (_ti, _vi)


def ident_to_template(ident: Tuple) -> Tuple[int, int]:
    return _IDENT_INDEX[ident]


def ident_of_record(r: Any) -> Tuple:
    """Identity of a library record object, computed from its public fields (lower-cased names)."""
    base = (r.name.lower(), r.type, r.class_)
    t = type(r).__name__
    if t == 'DNSAddress':
        return base + (r.address.hex(),)
    if t == 'DNSPointer':
        return base + (r.alias.lower(),)
    if t == 'DNSService':
        return base + (r.priority, r.weight, r.port, r.server.lower())
    if t == 'DNSText':
        return base + (r.text.hex(),)
    if t == 'DNSNsec':
        return base + (r.next_name.lower(), tuple(r.rdtypes))
    if t == 'DNSHinfo':
        return base + (r.cpu, r.os)
    return base + ('?',)


class CacheModel:
    """identity -> (created_ms, ttl_s).  RFC 6762 section 10 as the properties state it."""

    def __init__(self) -> None:
        self.m: Dict[Tuple, Tuple[float, float]] = {}

    def apply_response(self, now: float, recs: List[Tuple[Tuple, float, bool]]) -> Dict[str, Any]:
        """recs = [(identity, ttl, flush)] in datagram order. Returns what the contract promises listeners."""
        before = dict(self.m)
        eff = []
        for ident, ttl, flush in recs:
            if ident[1] == 12 and 0 < ttl < 1125:
                ttl = 1125
            eff.append((ident, ttl, flush))
        pairs = []       # (identity, eff ttl, had_previous)
        for ident, ttl, flush in eff:
            if ttl:
                pairs.append((ident, ttl, ident in before))
            elif ident in before:
                pairs.append((ident, 0, True))
        in_dgram = {i for i, _, _ in eff}
        state_first = dict(before)     # what a listener may see during the first call
        for ident, ttl, flush in eff:
            if ttl and ident in before:
                state_first[ident] = (now, ttl)
        flushed = set()
        for ident, ttl, flush in eff:
            if flush:
                for other, (c, t) in before.items():
                    # a record whose lifetime has already ended (it only waits to be purged) is no longer a cached record: the
                    # flush must leave it alone rather than give it another second (F31)
                    if other[:3] == ident[:3] and other not in in_dgram and now - c > 1000 and c + 1000 * t > now:
                        flushed.add(other)
        for other in flushed:
            state_first[other] = (now, 1)
        after = dict(state_first)
        for ident, ttl, flush in eff:
            if ttl:
                after[ident] = (now, ttl)
        for ident, ttl, flush in eff:
            if not ttl and ident in after and ident in before:
                del after[ident]
        self.m = after
        return {'pairs': pairs, 'state_first': state_first, 'flushed': flushed, 'before': before}

    def purge(self, now: float) -> set:
        gone = {i for i, (c, t) in self.m.items() if c + 1000 * t <= now}
        for i in gone:
            del self.m[i]
        return gone


def render(recs: List[Dict[str, Any]], msg_id: int) -> bytes:
    m = {'id': msg_id & 0xFFFF, 'flags': 0x8400, 'qd': [], 'an': recs, 'ns': [], 'ar': []}
    return wire.encode(m, compress='auto')


def snapshot_cache(cache: Any) -> Dict[Tuple, List[Tuple[float, float]]]:
    out: Dict[Tuple, List[Tuple[float, float]]] = {}
    for key, store in cache.cache.items():
        for k, v in store.items():
            out.setdefault(ident_of_record(k), []).append((k.created, k.ttl))
            if v is not k:
                out.setdefault(ident_of_record(v), []).append((v.created, v.ttl))
    return out


class Run:
    """One execution of a history; collects violations by tag (first one per family)."""

    def __init__(self, history: List[Any], n_templates: int, n_listeners: int = 1, check_paths: bool = True) -> None:
        self.history = history
        self.n_templates = n_templates
        self.n_listeners = n_listeners
        self.check_paths = check_paths
        self.viol: List[Violation] = []
        self.model = CacheModel()
        self.stats = {'refresh': 0, 'purged': 0, 'flush_marked': 0, 'repeat_in_dgram': 0, 'goodbye_cached': 0,
                      'new': 0, 'datagrams': 0, 'contradictory_dropped': 0, 'multi_kind_dgram': 0,
                      'boundary_flush': 0, 'listener_mutation': 0, 'refresh_then_purge': 0}
        self.refreshed_ids: set = set()

    def fail(self, tag: str, msg: str, details: Any = None) -> None:
        if not any(v.tag == tag for v in self.viol):
            self.viol.append(Violation(msg, details, tag=tag))

    # -- lookup paths --------------------------------------------------------------------------------
    def compare_paths(self, zc: Any, where: str) -> None:
        cache = zc.cache
        m = self.model.m
        from zeroconf import DNSAddress, DNSNsec, DNSPointer, DNSService, DNSText

        def conv(recs: Any) -> List[Tuple]:
            return sorted((ident_of_record(r), r.created, r.ttl) for r in recs)

        def want(pred) -> List[Tuple]:
            return sorted((i, c, t) for i, (c, t) in m.items() if pred(i))

        det = {'where': where}
        for pair in OWNERS:
            low = pair[0]
            for sp in pair:
                w = want(lambda i: i[0] == low)
                got = conv(cache.entries_with_name(sp))
                if got != w:
                    return self.fail('paths-entries_with_name', f'entries_with_name({sp!r}) disagrees with the model',
                                     dict(det, got=got, want=w))
                d = cache.async_entries_with_name(sp)
                if conv(d.keys()) != w or conv(d.values()) != w:
                    return self.fail('paths-async_entries_with_name',
                                     f'async_entries_with_name({sp!r}) disagrees with the model',
                                     dict(det, keys=conv(d.keys()), values=conv(d.values()), want=w))
                for typ in (1, 12, 16, 28, 33, 47):
                    w2 = want(lambda i: i[0] == low and i[1] == typ)
                    if conv(cache.get_all_by_details(sp, typ, 1)) != w2:
                        return self.fail('paths-get_all_by_details', f'get_all_by_details({sp!r},{typ}) disagrees',
                                         dict(det, got=conv(cache.get_all_by_details(sp, typ, 1)), want=w2))
                    if conv(cache.async_all_by_details(sp, typ, 1)) != w2:
                        return self.fail('paths-async_all_by_details', f'async_all_by_details({sp!r},{typ}) disagrees',
                                         dict(det, got=conv(cache.async_all_by_details(sp, typ, 1)), want=w2))
                    one = cache.get_by_details(sp, typ, 1)
                    if (one is None) != (not w2) or (one is not None and conv([one])[0] not in w2):
                        return self.fail('paths-get_by_details', f'get_by_details({sp!r},{typ}) disagrees',
                                         dict(det, got=None if one is None else conv([one]), want=w2))
                ws = want(lambda i: i[1] == 33 and i[-1] == low)
                if conv(cache.entries_with_server(sp)) != ws:
                    return self.fail('paths-entries_with_server', f'entries_with_server({sp!r}) disagrees',
                                     dict(det, got=conv(cache.entries_with_server(sp)), want=ws))
                ds = cache.async_entries_with_server(sp)
                if conv(ds.keys()) != ws or conv(ds.values()) != ws:
                    return self.fail('paths-async_entries_with_server', f'async_entries_with_server({sp!r}) disagrees',
                                     dict(det, keys=conv(ds.keys()), values=conv(ds.values()), want=ws))
        if sorted(cache.names()) != sorted({i[0] for i in m}):
            return self.fail('paths-names', 'names() disagrees with the model',
                             dict(det, got=sorted(cache.names()), want=sorted({i[0] for i in m})))
        # by exact record, with a probe object in the other spelling and a different TTL
        for (ti, vi) in _IDENT_INDEX.values():
            kind = TEMPLATES[ti][0]
            if kind in ('HINFO', 'UNKNOWN'):
                continue
            ident = ident_of_template(ti, vi)
            probe = probe_record(ti, vi)
            for fn in (cache.get, cache.async_get_unique):
                if kind == 'NSEC' and fn is cache.async_get_unique:
                    pass
                got = fn(probe)
                w3 = m.get(ident)
                if (got is None) != (w3 is None) or (got is not None and (got.created, got.ttl) != w3):
                    return self.fail('paths-get', f'{fn.__name__}(record) disagrees with the model',
                                     dict(det, ident=ident, got=None if got is None else (got.created, got.ttl), want=w3))

    # -- the run -------------------------------------------------------------------------------------
    def execute(self) -> None:
        with sim.World(jitter_seed=1) as w:
            w.run(self._main(w))
            if w.errors:
                self.fail('listener-loop-exception', 'exception reached the event loop', w.errors[:2])

    async def _main(self, w: sim.World) -> None:
        from zeroconf import RecordUpdateListener

        run = self
        host = w.add_host('B')
        zc = host.zc
        await zc.async_wait_for_start()
        listeners: List[Any] = []
        phase = {'inject': False}
        purges: List[Tuple[float, List[Tuple]]] = []

        class Spy(RecordUpdateListener):
            def __init__(self, idx: int, observer: bool = False) -> None:
                self.idx = idx
                self.observer = observer
                self.registered = True
                self.calls: List[Any] = []
                self.armed: Optional[Tuple[str, str, int]] = None

            def async_update_records(self, zc_: Any, now: float, recs: List[Any]) -> None:
                if not phase['inject']:
                    # outside datagram processing only the engine's periodic purge calls listeners
                    if self.observer and not phase.get('readd'):
                        purges.append((now, [ident_of_record(r.new) for r in recs],
                                       [r.new is r.old for r in recs]))
                    return
                self.calls.append(('update', now, [(ident_of_record(r.new), r.new.ttl, r.old) for r in recs],
                                   snapshot_cache(zc_.cache)))
                self._mutate('first')

            def async_update_records_complete(self) -> None:
                if not phase['inject']:
                    return
                self.calls.append(('complete', None, None, snapshot_cache(zc.cache)))
                self._mutate('second')

            def _mutate(self, ph: str) -> None:
                if self.armed and self.armed[0] == ph:
                    _, what, j = self.armed
                    self.armed = None
                    run.stats['listener_mutation'] += 1
                    if what == 'remove':
                        tgt = [l for l in listeners if l.registered and not l.observer]
                        if tgt:
                            t = tgt[j % len(tgt)]
                            zc.async_remove_listener(t)
                            t.registered = False
                            t.removed_in_phase = ph
                    else:
                        nl = Spy(len(listeners))
                        listeners.append(nl)
                        zc.async_add_listener(nl, None)

        observer = Spy(0, observer=True)
        listeners.append(observer)
        zc.async_add_listener(observer, None)
        for i in range(1, self.n_listeners):
            s = Spy(i)
            listeners.append(s)
            zc.async_add_listener(s, None)

        def process_purges() -> None:
            for now, got, same_obj in purges:
                want = self.model.purge(now)
                run.stats['purged'] += len(want)
                if want & self.refreshed_ids:
                    run.stats['refresh_then_purge'] += 1
                if not all(same_obj):
                    self.fail('purge-pairs', 'purge did not report records as (record, record) pairs', {'now': now})
                if set(got) != want or len(got) != len(set(got)):
                    self.fail('purge-set', 'purge reported a different set than the records whose TTL has fully elapsed',
                              {'now': now, 'reported': sorted(map(str, got)), 'model': sorted(map(str, want))})
            purges.clear()

        msg_id = 1
        lookups: List[Any] = []
        last_inject: List[Optional[float]] = [None]
        for step, op in enumerate(self.history):
            kind = op[0]
            if kind == 'tick':
                if len(op) > 2 and op[2] == 'exact' and last_inject[0] is not None:
                    await self._tick_exact(w, last_inject[0], op[1])
                else:
                    await asyncio.sleep(op[1] / 1000.0)
                process_purges()
                if self.check_paths:
                    self.compare_paths(zc, f'after step {step} tick')
            elif kind == 'resp':
                cached_ids = sorted(self.model.m)
                recs = []
                for rec in op[1]:
                    ti, vi = resolve(rec, self.n_templates, cached_ids)
                    recs.append((ti, vi, rec.get('sp', 0), rec['ttl'], bool(rec.get('flush'))))
                # exclude the contradictory datagram (same identity with zero and non-zero TTL)
                seen: Dict[Tuple, set] = {}
                for ti, vi, sp, ttl, fl in recs:
                    seen.setdefault(ident_of_template(ti, vi), set()).add(ttl == 0)
                if any(len(v) == 2 for v in seen.values()):
                    self.stats['contradictory_dropped'] += 1
                    continue
                rrs = [rr_of(*r) for r in recs]
                data = render(rrs, msg_id)
                msg_id += 1
                for l in listeners:
                    l.calls = []
                registered_before = [l for l in listeners if l.registered]
                objs_before = {ident_of_record(k): v for store in zc.cache.cache.values() for k, v in store.items()}
                now = w.now_ms
                last_inject[0] = now
                model_recs = [(ident_of_template(ti, vi), ttl, fl) for ti, vi, sp, ttl, fl in recs
                              if TEMPLATES[ti][0] != 'UNKNOWN']
                exp = self.model.apply_response(now, model_recs)
                self._classify(exp, model_recs, now)
                phase['inject'] = True
                try:
                    w.net.inject(host, data, PEER)
                finally:
                    phase['inject'] = False
                self.stats['datagrams'] += 1
                self._check_listeners(listeners, registered_before, exp, objs_before, now, step)
                self._check_state(zc, step)
                if self.check_paths:
                    self.compare_paths(zc, f'after step {step} resp')
            elif kind == 'add_listener':
                s = Spy(len(listeners))
                listeners.append(s)
                zc.async_add_listener(s, None)
            elif kind == 'remove_listener':
                tgt = [l for l in listeners if l.registered and not l.observer]
                if tgt:
                    t = tgt[op[1] % len(tgt)]
                    zc.async_remove_listener(t)
                    t.registered = False
            elif kind == 'readd_listener':
                # registering a listener that is already registered (once per question is the documented way to ask for several
                # record sets) leaves it registered once: still one pair of calls per datagram, and one removal removes it
                tgt = [l for l in listeners if l.registered]
                if tgt:
                    from zeroconf import DNSQuestion

                    t = tgt[op[1] % len(tgt)]
                    q = None if not op[2] else DNSQuestion(OWNERS[TEMPLATES[op[2] % len(TEMPLATES)][1]][0], 255, 1)
                    phase['readd'] = True      # the initial call listing cached answers to the question is no purge report
                    try:
                        zc.async_add_listener(t, q)
                    finally:
                        phase['readd'] = False
                    run.stats['listener_readded'] = run.stats.get('listener_readded', 0) + 1
            elif kind == 'arm':
                tgt = [l for l in listeners if l.registered]
                if tgt:
                    tgt[op[1] % len(tgt)].armed = (op[2], op[3], op[4])
            elif kind == 'lookup':
                # the application looks an instance up: while the lookup is pending its ServiceInfo is one more update listener of
                # the instance, called in the same rounds as the observers
                from zeroconf.asyncio import AsyncServiceInfo

                info = AsyncServiceInfo(OWNERS[T][0], OWNERS[[I, J][op[1] % 2]][0])
                lookups.append(asyncio.ensure_future(info.async_request(zc, op[2])))
                await asyncio.sleep(0)
                process_purges()      # (yielding to the loop lets a purge that is due at this very instant run: the model follows)
                run.stats['lookup_pending'] = run.stats.get('lookup_pending', 0) + 1
            # the engine purges every 10 s: nothing may linger more than one purge period past its expiry
            now_q = w.now_ms
            for store in zc.cache.cache.values():
                for r in store:
                    if r.created + 1000 * r.ttl + 10_001 < now_q:
                        self.fail('purge-overdue', 'record expired for more than one purge period is still cached',
                                  {'ident': ident_of_record(r), 'expired_ms_ago': now_q - (r.created + 1000 * r.ttl)})
            if len(self.viol) >= 4:
                break
        for t_ in lookups:
            t_.cancel()
        if lookups:
            await asyncio.gather(*lookups, return_exceptions=True)

    @staticmethod
    async def _tick_exact(w: sim.World, base_ms: float, ms: float) -> None:
        """Advance so that current_time_millis() - base_ms == ms exactly (float-exact), to sit on a stated boundary."""
        import math

        target_ms = base_ms + ms
        d = (target_ms - 0.3) / 1000.0 - w.clock.t
        if d > 0:
            await asyncio.sleep(d)
        t = target_ms / 1000.0
        cand = t
        for _ in range(64):
            if cand * 1000.0 - base_ms == ms:
                break
            cand = math.nextafter(cand, math.inf if cand * 1000.0 - base_ms < ms else -math.inf)
        if cand * 1000.0 - base_ms == ms and cand >= w.clock.t:
            w.clock.t = cand
        elif t > w.clock.t:
            w.clock.t = t

    def _classify(self, exp: Dict[str, Any], model_recs: List[Any], now: float) -> None:
        st = self.stats
        kinds = set()
        ids = [i for i, _, _ in model_recs]
        if len(ids) != len(set(ids)):
            st['repeat_in_dgram'] += 1
            kinds.add('repeat')
        for ident, ttl, had in exp['pairs']:
            if ttl and had:
                st['refresh'] += 1
                kinds.add('refresh')
                self.refreshed_ids.add(ident)
            elif ttl:
                st['new'] += 1
                kinds.add('new')
            else:
                st['goodbye_cached'] += 1
                kinds.add('goodbye')
        if exp['flushed']:
            st['flush_marked'] += len(exp['flushed'])
            kinds.add('flush')
        for ident, ttl, fl in model_recs:
            if fl:
                for other, (c, t) in exp['before'].items():
                    if other[:3] == ident[:3] and other != ident and 998.5 <= now - c <= 1001.5:
                        st['exact_1000'] = st.get('exact_1000', 0) + (1 if now - c == 1000 else 0)
                        st['boundary_flush'] += 1
                    if other[:3] == ident[:3] and other != ident and now - c > 1000 and c + 1000 * t <= now:
                        st['flush_over_expired'] = st.get('flush_over_expired', 0) + 1
        if len(kinds) >= 2:
            st['multi_kind_dgram'] += 1

    def _check_listeners(self, listeners: List[Any], registered_before: List[Any], exp: Dict[str, Any],
                         objs_before: Dict[Tuple, Any], now: float, step: int) -> None:
        pairs = exp['pairs']
        for l in listeners:
            calls = l.calls
            ups = [c for c in calls if c[0] == 'update']
            comps = [c for c in calls if c[0] == 'complete']
            if l not in registered_before:
                continue
            removed_during = not l.registered
            if removed_during:
                # a listener removed while the datagram is processed may or may not get the calls of the phase it was removed in,
                # but once the "before" phase is over a removed listener is no registered listener any more: no "after" call
                if getattr(l, 'removed_in_phase', None) == 'first' and comps:
                    self.fail('listener-called-after-removal', 'a listener removed during the first round of callbacks was still '
                              'given the completion callback of that datagram', {'step': step, 'listener': l.idx})
                continue
            det = {'step': step, 'listener': l.idx}
            if not pairs:
                if len(ups) > 1 or len(comps) > 1 or any(c[2] for c in ups):
                    self.fail('listener-spurious', 'listener called although the datagram changes nothing', det)
                continue
            if len(ups) != 1 or len(comps) != 1:
                self.fail('listener-exactly-once', f'listener got {len(ups)} update calls and {len(comps)} complete calls',
                          det)
                continue
            if calls[0][0] != 'update' or calls[-1][0] != 'complete':
                self.fail('listener-order', 'complete was not called after update', det)
            up = ups[0]
            if up[1] != now:
                self.fail('listener-now', 'listener was given a different time than the arrival time',
                          dict(det, got=up[1], want=now))
            got_pairs = [(i, t, old is not None) for i, t, old in up[2]]
            want_pairs = [(i, t, had) for i, t, had in pairs]
            if got_pairs != want_pairs:
                self.fail('listener-pairs', 'update pairs differ from (new, previous) in datagram order',
                          dict(det, got=got_pairs, want=want_pairs))
                continue
            for (i, t, old) in up[2]:
                if old is not None and old is not objs_before.get(i):
                    self.fail('listener-old-object', 'previous is not the cached copy', dict(det, ident=i))
            # state visible in the first call
            snap1 = up[3]
            want1 = exp['state_first']
            self._cmp_snapshot(snap1, want1, 'listener-first-state',
                               'cache state during the first call differs from: nothing added/removed yet, refreshes and '
                               'flush marks visible', det)
            snap2 = comps[0][3]
            self._cmp_snapshot(snap2, self.model.m, 'listener-second-state',
                               'cache state during the complete call differs from the model after the datagram', det)

    def _cmp_snapshot(self, snap: Dict[Tuple, List[Tuple[float, float]]], want: Dict[Tuple, Tuple[float, float]],
                      tag: str, msg: str, det: Dict[str, Any]) -> None:
        got = {i: sorted(set(v)) for i, v in snap.items() if i[1] != 13 or True}
        w = {i: [ct] for i, ct in want.items()}
        if got != w:
            diff = {str(i): (got.get(i), w.get(i)) for i in set(got) | set(w) if got.get(i) != w.get(i)}
            self.fail(tag, msg, dict(det, diff=dict(list(diff.items())[:3])))

    def _check_state(self, zc: Any, step: int) -> None:
        self._cmp_snapshot(snapshot_cache(zc.cache), self.model.m, 'ingest-state',
                           'cache after the datagram differs from the RFC 6762 s10 model', {'step': step})


def probe_record(ti: int, vi: int) -> Any:
    from zeroconf import DNSAddress, DNSNsec, DNSPointer, DNSService, DNSText

    kind, owner, variants = TEMPLATES[ti]
    v = variants[vi]
    name = OWNERS[owner][1]
    typ = KIND_TYPE[kind]
    if kind in ('A', 'AAAA'):
        return DNSAddress(name, typ, 1, 7, bytes.fromhex(v))
    if kind == 'PTR':
        return DNSPointer(name, typ, 0x8001, 7, OWNERS[v][1])
    if kind == 'SRV':
        return DNSService(name, typ, 1, 7, 0, 0, v[1], OWNERS[v[0]][1])
    if kind == 'TXT':
        return DNSText(name, typ, 1, 7, bytes.fromhex(v))
    return DNSNsec(name, typ, 1, 7, OWNERS[owner][0], list(v))
