"""Deterministic whole-stack simulator: virtual clock, time-travelling asyncio loop, fake datagram transports.

The unmodified library runs inside: time.monotonic, the library's jitter draws and socket creation are the only
things replaced, all from outside the repository.  One World per case; nothing survives a World.
"""
from __future__ import annotations

import asyncio
import random as _random
import selectors
import socket
import time as _time
from typing import Any, Callable, Dict, List, Optional, Tuple

from .core import HarnessError

MDNS4 = '224.0.0.251'
MDNS6 = 'ff02::fb'
T0 = 1000.0
TICK = 1e-6

_REAL_MONOTONIC = _time.monotonic


class SimBudgetExceeded(HarnessError):
    """The event loop ran more iterations than any legitimate scenario needs (runaway busy loop)."""


MAX_ITERATIONS = 300_000
MAX_WALL_S = 90.0


class VClock:
    def __init__(self, t: float = T0) -> None:
        self.t = t

    def monotonic(self) -> float:
        return self.t


class VSelector(selectors.BaseSelector):
    """select() never blocks: it advances the virtual clock to the loop's next deadline."""

    def __init__(self, clock: VClock) -> None:
        self.clock = clock
        self._map: Dict[Any, selectors.SelectorKey] = {}
        self.loop: Optional['VLoop'] = None
        self.iterations = 0
        self._wall0 = None
        self.tick = TICK

    def register(self, fileobj, events, data=None):
        key = selectors.SelectorKey(fileobj, fileobj if isinstance(fileobj, int) else fileobj.fileno(), events, data)
        self._map[fileobj] = key
        return key

    def unregister(self, fileobj):
        return self._map.pop(fileobj)

    def modify(self, fileobj, events, data=None):
        self.unregister(fileobj)
        return self.register(fileobj, events, data)

    def select(self, timeout=None):
        self.iterations += 1
        if self.iterations % 2000 == 0:
            import time as _t
            if self._wall0 is None:
                self._wall0 = _t.perf_counter()
            elif _t.perf_counter() - self._wall0 > MAX_WALL_S:
                raise SimBudgetExceeded(f'one case ran for more than {MAX_WALL_S} s of wall time (inconclusive, not a violation)')
        if self.iterations > MAX_ITERATIONS:
            raise SimBudgetExceeded(f'more than {MAX_ITERATIONS} event-loop iterations in one case (busy loop in virtual time)')
        if timeout is None:
            raise HarnessError('virtual deadlock: nothing scheduled and nothing ready while the harness is still waiting')
        if timeout > 0:
            target = self.clock.t + timeout
            sched = self.loop._scheduled if self.loop is not None else None
            if sched:
                w = sched[0]._when
                if abs(w - target) < 1e-7:
                    target = w
            if target > self.clock.t:
                self.clock.t = target
        else:
            self.clock.t += self.tick   # executing ready callbacks takes (a little) time
        return []

    def get_map(self):
        return self._map

    def close(self):
        self._map.clear()


class FakeSock:
    def __init__(self, family: int, addr: Tuple, n: int, host: 'Host', role: str) -> None:
        self.family = family
        self._addr = addr
        self._n = n
        self.host = host
        self.role = role  # 'listen' | 'respond' | 'both'
        self.dual = False

    def fileno(self) -> int:
        return self._n

    def getsockname(self) -> Tuple:
        return self._addr

    def close(self) -> None:
        pass

    def __repr__(self) -> str:
        return f'<FakeSock {self.host.name} {self.role} {self._addr}>'


class FakeTransport(asyncio.DatagramTransport):
    def __init__(self, net: 'Net', sock: FakeSock, proto: Any) -> None:
        super().__init__()
        self.net = net
        self.sock = sock
        self.proto = proto
        self.closed = False

    def get_extra_info(self, name, default=None):
        if name == 'socket':
            return self.sock
        if name == 'sockname':
            return self.sock.getsockname()
        return default

    def sendto(self, data, addr=None):
        if self.closed:
            self.net.sent_after_close.append((self.net.loop.time(), self.sock.host.name, bytes(data), addr))
            return
        self.net.sent(self, bytes(data), addr)

    def close(self):
        if self.closed:
            return
        self.closed = True
        # like asyncio's datagram transports: the protocol is told on the next loop iteration
        loop = self.net.loop
        if loop is not None and not loop.is_closed():
            loop.call_soon(self._connection_lost)

    def _connection_lost(self):
        try:
            self.proto.connection_lost(None)
        except AttributeError:
            pass

    def is_closing(self):
        return self.closed

    def abort(self):
        self.close()


class VLoop(asyncio.SelectorEventLoop):
    def __init__(self, clock: VClock, net: 'Net') -> None:
        sel = VSelector(clock)
        super().__init__(sel)
        sel.loop = self
        self.clock = clock
        self.net = net

    def time(self) -> float:
        return self.clock.t

    async def create_datagram_endpoint(self, protocol_factory, local_addr=None, remote_addr=None, *, sock=None, **kw):
        if not isinstance(sock, FakeSock):
            raise HarnessError('create_datagram_endpoint called with a real socket')
        proto = protocol_factory()
        tr = FakeTransport(self.net, sock, proto)
        sock.host.endpoints.append(tr)
        proto.connection_made(tr)
        return tr, proto


class Host:
    """One machine on the link. `socks` = list of ('v4'|'v6', ip); single=True => one socket listens and responds."""

    def __init__(self, world: 'World', name: str, socks: List[Tuple[str, str]], single: bool = True) -> None:
        self.world = world
        self.name = name
        self.sock_spec = socks
        self.single = single
        self.endpoints: List[FakeTransport] = []
        self.azc: Any = None
        self.zc: Any = None
        self.closed = False
        self.index = len(world.net.hosts)

    @property
    def ip(self) -> str:
        return self.sock_spec[0][1]

    def listen_endpoints(self) -> List[FakeTransport]:
        return [e for e in self.endpoints if e.sock.role in ('listen', 'both')]

    def endpoint_for_ip(self, ip: str) -> Optional[FakeTransport]:
        for e in self.endpoints:
            if e.sock.role in ('respond', 'both') and e.sock.getsockname()[0] == ip:
                return e
        return None

    def make_sockets(self):
        base = 100 + self.index * 10
        kinds = {k for k, _ in self.sock_spec}

        def mk(kind: str, ip: str, n: int, role: str) -> FakeSock:
            if kind == 'v4':
                return FakeSock(socket.AF_INET, (ip, 5353), n, self, role)
            return FakeSock(socket.AF_INET6, (ip, 5353, 0, 2 + self.index), n, self, role)

        if self.single and len(self.sock_spec) == 1:
            s = mk(self.sock_spec[0][0], self.sock_spec[0][1], base, 'both')
            return s, [s]
        # separate listen socket; with both families present it is a dual-stack v6 socket (as the library creates)
        if kinds == {'v4'}:
            listen = mk('v4', '0.0.0.0', base, 'listen')
        else:
            listen = mk('v6', '::', base, 'listen')
            listen.dual = 'v4' in kinds
        responders = [mk(k, ip, base + 1 + i, 'respond') for i, (k, ip) in enumerate(self.sock_spec)]
        return listen, responders


class Delivery:
    """Per (datagram, receiver) delivery plan: list of delays in seconds ([] = dropped, 2 entries = duplicated)."""

    def __init__(self, seed: Optional[int] = None, max_delay_ms: int = 0, dup_pct: int = 0, fixed_ms: float = 1.0,
                 drop: Optional[Tuple[int, Optional[int]]] = None) -> None:
        self.rnd = _random.Random(seed) if seed is not None else None
        self.max_delay_ms = max_delay_ms
        self.dup_pct = dup_pct
        self.fixed_ms = fixed_ms
        self.drop = drop   # (datagram sequence number, receiver host index or None for all)
        self.used: List[Tuple[int, int]] = []

    def plan(self, seq: int, receiver: int) -> List[float]:
        if self.rnd is None:
            delays = [self.fixed_ms / 1000.0]
        else:
            delays = [self.rnd.randint(0, self.max_delay_ms) / 1000.0]
            if self.dup_pct and self.rnd.randrange(100) < self.dup_pct:
                delays.append(self.rnd.randint(0, self.max_delay_ms) / 1000.0)
        if self.drop is not None and self.drop[0] == seq and self.drop[1] in (None, receiver):
            return []
        return delays


class Net:
    def __init__(self, world: 'World', delivery: Delivery) -> None:
        self.world = world
        self.hosts: List[Host] = []
        self.trace: List[Dict[str, Any]] = []
        self.loop: Optional[VLoop] = None
        self.delivery = delivery
        self.legacy_sink: List[Dict[str, Any]] = []
        self.sent_after_close: List[Any] = []
        self.delivered: List[Dict[str, Any]] = []
        self.seq = 0
        self.on_send: List[Callable[[Dict[str, Any]], None]] = []

    def sent(self, tr: FakeTransport, data: bytes, addr: Any) -> None:
        t = self.loop.time()
        self.world.gseq += 1
        entry = {'seq': self.seq, 'g': self.world.gseq, 't': t, 'host': tr.sock.host.name, 'sock': tr.sock.fileno(),
                 'family': 'v6' if tr.sock.family == socket.AF_INET6 else 'v4', 'dst': addr[0], 'port': addr[1],
                 'data': data, 'role': tr.sock.role}
        self.seq += 1
        self.trace.append(entry)
        for cb in self.on_send:
            cb(entry)
        src_ip = tr.sock.getsockname()[0]
        if src_ip in ('0.0.0.0', '::'):
            src_ip = tr.sock.host.ip
        dst, port = addr[0], addr[1]
        if dst in (MDNS4, MDNS6):
            if port != 5353:
                return
            fam = 'v4' if dst == MDNS4 else 'v6'
            for h in self.hosts:
                for ep in h.listen_endpoints():
                    epfam = 'v6' if ep.sock.family == socket.AF_INET6 else 'v4'
                    if epfam != fam and not (fam == 'v4' and getattr(ep.sock, 'dual', False)):
                        continue
                    for delay in self.delivery.plan(entry['seq'], h.index):
                        self._deliver_later(delay, ep, data, self._src_tuple(tr, src_ip, ep), entry['seq'])
            return
        # unicast
        if dst.startswith('::ffff:'):
            dst = dst[7:]
        for h in self.hosts:
            ep = h.endpoint_for_ip(dst)
            if ep is not None:
                if port == 5353:
                    for delay in self.delivery.plan(entry['seq'], h.index):
                        self._deliver_later(delay, ep, data, self._src_tuple(tr, src_ip, ep), entry['seq'])
                return
        self.legacy_sink.append(entry)

    @staticmethod
    def _src_tuple(tr: FakeTransport, src_ip: str, ep: FakeTransport) -> Tuple:
        if ep.sock.family == socket.AF_INET6:
            if ':' not in src_ip:
                src_ip = '::ffff:' + src_ip
            return (src_ip, 5353, 0, ep.sock.getsockname()[3])
        return (src_ip, 5353)

    def _deliver_later(self, delay: float, ep: FakeTransport, data: bytes, src: Tuple, seq: int) -> None:
        self.loop.call_at(self.loop.time() + delay, self._deliver, ep, data, src, seq)

    def _deliver(self, ep: FakeTransport, data: bytes, src: Tuple, seq: int) -> None:
        if ep.closed:
            return
        self.world.gseq += 1
        self.delivered.append({'g': self.world.gseq, 't': self.loop.time(), 'host': ep.sock.host.name, 'seq': seq})
        ep.proto.datagram_received(data, src)

    def inject(self, host: Host, data: bytes, src: Tuple, sock_index: int = 0, role: str = 'listen') -> None:
        """Hand bytes to one of the host's sockets right now, as if received from `src`."""
        eps = [e for e in host.endpoints if e.sock.role in ((role, 'both') if role != 'any' else ('listen', 'respond', 'both'))]
        if not eps:
            eps = host.endpoints
        ep = eps[sock_index % len(eps)]
        if ep.closed:
            return
        self.world.gseq += 1
        self.delivered.append({'g': self.world.gseq, 't': self.loop.time(), 'host': host.name, 'seq': -1})
        try:
            ep.proto.datagram_received(data, src)
        except HarnessError:
            raise
        except BaseException as e:  # noqa - a real transport would hand this to the loop's exception handler
            if isinstance(e, (KeyboardInterrupt, SystemExit)):
                raise
            self.world._on_loop_exception(self.loop, {'message': 'exception in datagram_received', 'exception': e})


class Jitter:
    """Replacement for the library's random.randint draws; every draw is logged with its call site."""

    def __init__(self, world: 'World', seed: int = 0, explicit: Optional[List[int]] = None, keyed: bool = False) -> None:
        self.world = world
        self.rnd = _random.Random(seed)
        self.explicit = explicit
        self.keyed = keyed
        self.seed = seed
        self.i = 0
        self.draws: List[Dict[str, Any]] = []

    def draw(self, site: str, a: int, b: int) -> int:
        if self.keyed:
            t_ms = int(self.world.clock.t * 1000)
            v = a + (hash((self.seed, site, t_ms // 1)) % (b - a + 1))
        elif self.explicit:
            pct = self.explicit[self.i % len(self.explicit)]
            self.i += 1
            v = a + ((b - a) * pct) // 100
        else:
            v = self.rnd.randint(a, b)
        self.world.gseq += 1
        self.draws.append({'g': self.world.gseq, 't': self.world.clock.t, 'site': site, 'a': a, 'b': b, 'v': v})
        return v

    def site(self, name: str) -> Callable[[int, int], int]:
        return lambda a, b: self.draw(name, a, b)


class _RandomShim:
    """Stands in for the `random` module inside one library module."""

    def __init__(self, fn: Callable[[int, int], int]) -> None:
        self.randint = fn

    def __getattr__(self, name: str) -> Any:
        return getattr(_random, name)


class World:
    """Everything one case needs; use as a context manager."""

    current: Optional['World'] = None

    def __init__(self, jitter_seed: int = 0, jitter_explicit: Optional[List[int]] = None, jitter_keyed: bool = False,
                 delivery: Optional[Delivery] = None, tick: Optional[float] = None) -> None:
        self.tick = tick
        self.clock = VClock()
        self.gseq = 0
        self.net = Net(self, delivery or Delivery())
        self.loop = VLoop(self.clock, self.net)
        if tick is not None:
            self.loop._selector.tick = tick    # virtual cost of one busy event-loop iteration (default 1 us)
        self.net.loop = self.loop
        self.errors: List[Dict[str, Any]] = []
        self.jitter = Jitter(self, jitter_seed, jitter_explicit, jitter_keyed)
        self._saved: List[Tuple[Any, str, Any]] = []
        self._pending_host: Optional[Host] = None

    # -- patching ----------------------------------------------------------------------------------
    def _patch(self, obj: Any, attr: str, value: Any) -> None:
        self._saved.append((obj, attr, getattr(obj, attr)))
        setattr(obj, attr, value)

    def __enter__(self) -> 'World':
        if World.current is not None:
            raise HarnessError('nested World')
        World.current = self
        import zeroconf._core as core
        import zeroconf._handlers.multicast_outgoing_queue as moq
        import zeroconf._listener as lst
        import zeroconf._services.browser as brw
        import zeroconf._services.info as inf

        self._patch(_time, 'monotonic', self.clock.monotonic)
        self._patch(core, 'create_sockets', self._create_sockets)
        self._patch(moq, 'RAND_INT', self.jitter.site('mcast_queue'))
        self._patch(inf, 'randint', self.jitter.site('info'))
        self._patch(lst, 'random', _RandomShim(self.jitter.site('tc_defer')))
        self._patch(brw, 'random', _RandomShim(self.jitter.site('browser_first')))
        asyncio.set_event_loop(self.loop)
        self.loop.set_exception_handler(self._on_loop_exception)
        return self

    def __exit__(self, *exc: Any) -> None:
        try:
            self._teardown()
        finally:
            for obj, attr, val in reversed(self._saved):
                setattr(obj, attr, val)
            self._saved.clear()
            asyncio.set_event_loop(None)
            World.current = None
            import zeroconf._logger as zl
            import zeroconf._protocol.incoming as zi

            zi._seen_logs.clear()
            zl.QuietLogger._seen_logs.clear()

    def _teardown(self) -> None:
        loop = self.loop
        if loop.is_closed():
            return

        async def closer() -> None:
            for h in self.net.hosts:
                if h.azc is not None and not h.closed:
                    try:
                        await h.azc.async_close()
                    except BaseException:  # noqa
                        pass
                    h.closed = True
            tasks = [t for t in asyncio.all_tasks(loop) if t is not asyncio.current_task()]
            for t in tasks:
                t.cancel()
            if tasks:
                await asyncio.gather(*tasks, return_exceptions=True)

        saved_handler_errors = list(self.errors)
        try:
            loop.run_until_complete(closer())
        except BaseException:  # noqa
            pass
        self.errors[:] = saved_handler_errors
        try:
            loop.close()
        except BaseException:  # noqa
            pass

    def _on_loop_exception(self, loop: Any, ctx: Dict[str, Any]) -> None:
        self.gseq += 1
        exc = ctx.get('exception')
        self.errors.append({'g': self.gseq, 't': self.clock.t, 'message': ctx.get('message'),
                            'exception': repr(exc), 'type': type(exc).__name__ if exc else None})

    def _create_sockets(self, interfaces=None, unicast=False, ip_version=None, apple_p2p=False):
        h = self._pending_host
        if h is None:
            raise HarnessError('Zeroconf created outside World.add_host')
        return h.make_sockets()

    # -- API ---------------------------------------------------------------------------------------
    @property
    def now(self) -> float:
        """virtual seconds since the start of the case"""
        return self.clock.t - T0

    @property
    def now_ms(self) -> float:
        return self.clock.t * 1000.0

    def add_host(self, name: str, socks: Optional[List[Tuple[str, str]]] = None, single: bool = True) -> Host:
        """Must be called from inside the running loop (the library captures the running loop)."""
        from zeroconf.asyncio import AsyncZeroconf

        idx = len(self.net.hosts)
        socks = socks or [('v4', f'10.0.0.{idx + 1}')]
        h = Host(self, name, socks, single)
        self.net.hosts.append(h)
        self._pending_host = h
        try:
            h.azc = AsyncZeroconf()
        finally:
            self._pending_host = None
        h.zc = h.azc.zeroconf
        return h

    def run(self, coro: Any) -> Any:
        return self.loop.run_until_complete(coro)

    async def sleep_until(self, t_s: float) -> None:
        """Sleep until virtual time t_s (seconds since case start)."""
        d = (T0 + t_s) - self.clock.t
        if d > 0:
            await asyncio.sleep(d)

    async def settle(self) -> None:
        """Let everything that is ready at the current instant run."""
        for _ in range(3):
            await asyncio.sleep(0)


# ---------------------------------------------------------------------------------------------------
# helpers used by several properties

def make_service_info(desc: Dict[str, Any]):
    """desc: {'type','name','port','server','addrs':[text],'props':{}|bytes-hex,'host_ttl','other_ttl', 'weight','priority'}"""
    import ipaddress

    from zeroconf import ServiceInfo

    addrs = [ipaddress.ip_address(a).packed for a in desc.get('addrs', [])]
    props = desc.get('props', {})
    if isinstance(props, str):
        props = bytes.fromhex(props)
    kw: Dict[str, Any] = {}
    if 'host_ttl' in desc:
        kw['host_ttl'] = desc['host_ttl']
    if 'other_ttl' in desc:
        kw['other_ttl'] = desc['other_ttl']
    if desc.get('interface_index') is not None:
        kw['interface_index'] = desc['interface_index']
    return ServiceInfo(desc['type'], desc['name'], desc.get('port', 80), desc.get('weight', 0), desc.get('priority', 0),
                       props, desc.get('server'), addresses=addrs, **kw)


class RecListener:
    """ServiceListener that logs every callback with virtual time and a global sequence number."""

    def __init__(self, world: World, tag: str = '', on_add: Optional[Callable[..., None]] = None) -> None:
        self.world = world
        self.tag = tag
        self.events: List[Dict[str, Any]] = []
        self.on_add = on_add

    def _log(self, kind: str, zc: Any, type_: str, name: str) -> Dict[str, Any]:
        self.world.gseq += 1
        e = {'g': self.world.gseq, 't': self.world.clock.t, 'kind': kind, 'type': type_, 'name': name}
        self.events.append(e)
        return e

    def add_service(self, zc: Any, type_: str, name: str) -> None:
        e = self._log('add', zc, type_, name)
        if self.on_add:
            self.on_add(self, zc, type_, name, e)

    def remove_service(self, zc: Any, type_: str, name: str) -> None:
        self._log('remove', zc, type_, name)

    def update_service(self, zc: Any, type_: str, name: str) -> None:
        self._log('update', zc, type_, name)

    def live(self) -> Dict[str, set]:
        out: Dict[str, set] = {}
        for e in self.events:
            s = out.setdefault(e['type'], set())
            if e['kind'] == 'add':
                s.add(e['name'].lower())
            elif e['kind'] == 'remove':
                s.discard(e['name'].lower())
        return out


def decode_trace_entry(entry: Dict[str, Any]) -> Optional[Dict[str, Any]]:
    """Decode a traced datagram with the independent decoder (lenient on name length); None if undecodable."""
    from . import wire

    if '_dec' in entry:
        return entry['_dec']
    try:
        m = wire.strict_decode_lenient_len(entry['data'])
    except wire.Reject:
        m = None
    entry['_dec'] = m
    return m
