"""Message cases shared by C01 (round trip) and C14 (size limits): strategy, expansion, build, expectations.

A case:
 {'response': bool, 'multicast': bool, 'id': int, 'aa': bool,
  'q': [question], 'an': [record + {'now': ms|0, 'age': str}], 'ns': [record], 'ar': [record],
  'bulk': None | {'seed': int, 'n': int, 'sections': str, 'target': 0|1460|8966, 'delta': int, 'big_first': bool}}
Bulk entries are expanded by a PRNG owned by the generator (two-level generation, DESIGN 2.1).
"""
from __future__ import annotations

import random
from typing import Any, Dict, List, Optional, Tuple

from hypothesis import strategies as st

from . import gen, wire

KIND_TYPE = {'A': 1, 'CNAME': 5, 'PTR': 12, 'HINFO': 13, 'TXT': 16, 'AAAA': 28, 'SRV': 33, 'NSEC': 47}
CREATED_BASE = 1_000_000.0  # ms


@st.composite
def ladder_case(draw) -> Dict[str, Any]:
    """A legal message with very many distinct compression targets in the middle of names: one or two names of 60-84 short labels,
    then a question (or a PTR record whose target is) each of their parent domains - every one compresses to a bare pointer into
    the middle of the long name."""
    n_lab = draw(st.integers(60, 84))
    longs = []
    for c in draw(st.sampled_from(['a', 'ab'])):
        labels = [c + '%d' % (i % 10) for i in range(n_lab)]
        longs.append('.'.join(labels) + '.local.')
    longs = [gen.clamp_name(x) for x in longs]
    suffixes = []
    for nm in longs:
        ls = nm[:-1].split('.')
        suffixes += ['.'.join(ls[k:]) + '.' for k in range(1, len(ls) - 1)]
    response = draw(st.booleans())
    case: Dict[str, Any] = {'response': response, 'aa': False, 'multicast': draw(st.booleans()), 'id': 0, 'names': longs, 'via_incoming': False,
                            'q': [], 'an': [], 'ns': [], 'ar': [], 'bulk': None}
    if response:
        case['an'] = [{'k': 'PTR', 'name': longs[i % len(longs)], 'cls': 1, 'flush': False, 'ttl': 120, 'target': sfx, 'age': 'zero'}
                      for i, sfx in enumerate([longs[0]] + suffixes)]
    else:
        case['q'] = [{'name': nm, 'type': 12, 'cls': 1, 'qu': False} for nm in longs + suffixes]
    return case


@st.composite
def message_case(draw, size_directed_share: int = 3, max_small: int = 12) -> Dict[str, Any]:
    if draw(st.integers(0, 39)) == 0:
        return draw(ladder_case())
    names = draw(gen.name_pool(root=True))
    response = draw(st.booleans())
    case: Dict[str, Any] = {
        'response': response,
        'aa': draw(st.booleans()),
        'multicast': draw(st.booleans()),
        'id': draw(st.sampled_from([0, 1, 0x1234, 0xFFFF])),
        'names': names,
        'via_incoming': draw(st.sampled_from([False, False, False, True])),
        # the entry objects have a history: they went into an earlier message first (questions with the other QU bit, records in
        # reverse order - another compression context), as when one question / record object is used for several transmissions
        'used_before': draw(st.sampled_from([False, False, True])),
    }
    case['q'] = draw(st.lists(gen.question(names), max_size=max_small if not response else 2))
    ans = draw(st.lists(gen.record(names), max_size=max_small))
    for r in ans:
        mode = draw(st.sampled_from(['zero', 'zero', 'fresh', 'half', 'last_ms', 'expired', 'frac']))
        r['age'] = mode
    case['an'] = ans
    case['ns'] = draw(st.lists(gen.record(names), max_size=4))
    case['ar'] = draw(st.lists(gen.record(names), max_size=max_small))
    if draw(st.integers(0, 9)) < size_directed_share + 2:
        case['bulk'] = {
            'seed': draw(st.integers(0, 2**31)),
            'n': draw(st.one_of(st.integers(0, 40), st.integers(0, 400))),
            'sections': draw(st.sampled_from(['q', 'an', 'ar', 'ns', 'q+an', 'an+ar', 'all'])),
            'target': draw(st.sampled_from([0, 1460, 1460, 8966])) if draw(st.integers(0, 9)) < 7 else 0,
            'delta': draw(st.integers(-4, 4)),
            'pos': draw(st.sampled_from(['first', 'last', 'mid'])),
            'share': draw(st.sampled_from([0, 60, 95])),
            'kinds': draw(st.sampled_from(['all', 'all', 'PTR', 'TXT', 'SRV+A'])),
        }
    else:
        case['bulk'] = None
    return case


def _bulk_record(rnd: random.Random, names: List[str], kinds: str) -> Dict[str, Any]:
    if kinds == 'PTR':
        kind = 'PTR'
    elif kinds == 'TXT':
        kind = 'TXT'
    elif kinds == 'SRV+A':
        kind = rnd.choice(['SRV', 'A', 'AAAA'])
    else:
        kind = rnd.choice(['A', 'AAAA', 'PTR', 'CNAME', 'TXT', 'SRV', 'HINFO', 'NSEC'])
    r: Dict[str, Any] = {'k': kind, 'name': rnd.choice(names), 'cls': rnd.choice([1, 1, 1, 3]),
                         'flush': rnd.random() < 0.5, 'ttl': rnd.choice(gen.TTLS + [rnd.randrange(2**32)])}
    if kind == 'A':
        r['addr'] = bytes(rnd.randrange(256) for _ in range(4)).hex()
    elif kind == 'AAAA':
        r['addr'] = bytes(rnd.randrange(256) for _ in range(16)).hex()
    elif kind in ('PTR', 'CNAME'):
        r['target'] = rnd.choice(names)
    elif kind == 'TXT':
        r['txt_len'] = rnd.choice([0, 1, 5, 20, 100, 255, 256, rnd.randrange(600)])
        r['txt_seed'] = rnd.randrange(256)
    elif kind == 'SRV':
        r.update(prio=rnd.randrange(65536), weight=rnd.randrange(65536), port=rnd.randrange(65536),
                 target=rnd.choice(names))
    elif kind == 'HINFO':
        r.update(cpu=gen.fit_bytes('', rnd.choice([0, 1, 10, 255])), os='os' + 'é' * rnd.randrange(3))
    elif kind == 'NSEC':
        r.update(next=rnd.choice(names), types=sorted(rnd.sample(range(1, 256), rnd.randint(1, 5))))
    return r


def _bulk_names(rnd: random.Random, names: List[str], share: int, n: int) -> List[str]:
    """Extra names: `share` percent share a suffix with an existing name in some spelling."""
    out = list(names)
    for i in range(max(2, n // 6)):
        if rnd.randrange(100) < share and out:
            base = rnd.choice(out)
            labels = base[:-1].split('.')
            cut = rnd.randrange(len(labels))
            suffix = gen.recase('.'.join(labels[cut:]) + '.', rnd.choice([0, 0, 1, 2, 3]))
            if suffix == '.':          # the root has no labels to share
                suffix = ''
        else:
            suffix = rnd.choice(gen.BASE_SUFFIXES)
        lab = gen.fit_bytes('i%d' % i + rnd.choice(['', 'é', 'Ω', ' x']), rnd.choice([3, 5, 9, 20, 62, 63]))
        out.append(gen.clamp_name(lab + '.' + suffix))
    return out


def to_wire_rr(r: Dict[str, Any], multicast: bool = True, ttl: Optional[int] = None) -> Dict[str, Any]:
    """Record description -> independent-codec rr (expected on-the-wire form)."""
    typ = KIND_TYPE[r['k']]
    cls = r['cls'] | (0x8000 if (r['flush'] and multicast) else 0)
    k = r['k']
    if k in ('A', 'AAAA'):
        rd: Dict[str, Any] = {'addr': bytes.fromhex(r['addr'])}
    elif k in ('PTR', 'CNAME'):
        rd = {'target': wire.labels_of(r['target'])}
    elif k == 'TXT':
        rd = {'txt': gen.txt_bytes(r['txt_len'], r['txt_seed'])}
    elif k == 'SRV':
        rd = {'prio': r['prio'], 'weight': r['weight'], 'port': r['port'], 'target': wire.labels_of(r['target'])}
    elif k == 'HINFO':
        rd = {'cpu': r['cpu'].encode(), 'os': r['os'].encode()}
    else:
        rd = {'next': wire.labels_of(r['next']), 'types': list(r['types'])}
    return {'name': wire.labels_of(r['name']), 'type': typ, 'cls': cls,
            'ttl': r['ttl'] if ttl is None else ttl, 'rd': rd}


def to_wire_q(q: Dict[str, Any], multicast: bool = True) -> Dict[str, Any]:
    return {'name': wire.labels_of(q['name']), 'type': q['type'],
            'cls': q['cls'] | (0x8000 if (q['qu'] and multicast) else 0)}


def entry_alone_size(sec: str, e: Dict[str, Any]) -> int:
    m = {'qd': [], 'an': [], 'ns': [], 'ar': []}
    if sec == 'q':
        m['qd'].append(to_wire_q(e))
    else:
        m['an'].append(to_wire_rr(e))
    return len(wire.encode(m))


def expand(case: Dict[str, Any]) -> Dict[str, List[Dict[str, Any]]]:
    """Deterministically expand the case (incl. bulk) into the four entry lists."""
    secs = {'q': list(case['q']), 'an': [dict(r) for r in case['an']], 'ns': list(case['ns']), 'ar': list(case['ar'])}
    b = case.get('bulk')
    if b:
        rnd = random.Random(b['seed'])
        names = _bulk_names(rnd, case['names'], b['share'], b['n'])
        which = {'q': ['q'], 'an': ['an'], 'ar': ['ar'], 'ns': ['ns'], 'q+an': ['q', 'an'], 'an+ar': ['an', 'ar'],
                 'all': ['q', 'an', 'ns', 'ar']}[b['sections']]
        if case['response']:
            which = [w for w in which if w != 'q'] or ['an']
        for _ in range(b['n']):
            sec = rnd.choice(which)
            if sec == 'q':
                secs['q'].append({'name': rnd.choice(names), 'type': rnd.choice([1, 12, 16, 28, 33, 255]),
                                  'cls': 1, 'qu': rnd.random() < 0.3})
            else:
                r = _bulk_record(rnd, names, b['kinds'])
                if sec == 'an':
                    r['age'] = 'zero'
                secs[sec].append(r)
        if b['target']:
            _aim(secs, b, rnd, case)
    # make sure every single entry fits an otherwise empty 8966-byte datagram (stated precondition)
    for sec in ('q', 'an', 'ns', 'ar'):
        for e in secs[sec]:
            if e.get('k') == 'TXT':
                over = entry_alone_size(sec, e) - 8966
                if over > 0:
                    e['txt_len'] = max(0, e['txt_len'] - over)
    return secs


def _aim(secs: Dict[str, List[Dict[str, Any]]], b: Dict[str, Any], rnd: random.Random, case: Dict[str, Any]) -> None:
    """Insert one TXT record sized so that the encoded size lands at target+delta.

    1460: measured on the whole message as one datagram so far (prefix up to the insertion point).
    8966: a single record whose own datagram is target+delta (delta <= 0 to respect the precondition).
    """
    sec = rnd.choice(['an', 'ar', 'ns'] if secs['an'] or secs['ar'] or secs['ns'] or True else ['an'])
    owner = rnd.choice(case['names'])
    probe = {'k': 'TXT', 'name': owner, 'cls': 1, 'flush': False, 'ttl': 120, 'txt_len': 0, 'txt_seed': 1}
    if sec == 'an':
        probe['age'] = 'zero'
    if b['target'] == 8966:
        delta = min(b['delta'], 0)
        base = entry_alone_size(sec, probe)
        probe['txt_len'] = max(0, 8966 + delta - base)
        lst = secs[sec]
        pos = {'first': 0, 'last': len(lst), 'mid': len(lst) // 2}[b['pos']]
        lst.insert(pos, probe)
        return
    # 1460: build the message prefix up to (and including) the insertion section with the independent encoder
    order = ['q', 'an', 'ns', 'ar']
    m = {'qd': [], 'an': [], 'ns': [], 'ar': []}
    for s in order:
        if s == sec:
            break
        for e in secs[s]:
            if s == 'q':
                m['qd'].append(to_wire_q(e, case['multicast']))
            else:
                m[s].append(to_wire_rr(e, case['multicast']))
    lst = secs[sec]
    pos = {'first': 0, 'last': len(lst), 'mid': len(lst) // 2}[b['pos']]
    for e in lst[:pos]:
        m[sec].append(to_wire_rr(e, case['multicast']))
    m[sec].append(to_wire_rr(probe, case['multicast']))
    size0 = len(wire.encode(m))
    want = 1460 + b['delta'] - size0
    if want < 0:
        # prefix already beyond one datagram: aim relative to the remainder modulo is not computable cheaply;
        # fall back to an absolute-size record (still exercises the roll-back path)
        want = max(0, 1460 + b['delta'] - entry_alone_size(sec, probe))
    probe['txt_len'] = want
    lst.insert(pos, probe)


def answer_now_created(r: Dict[str, Any]) -> Tuple[float, float]:
    """(now, created) for an answer according to its age mode; integers/halves so arithmetic is exact."""
    ttl = r['ttl']
    created = CREATED_BASE
    life = 1000.0 * ttl
    mode = r.get('age', 'zero')
    if mode == 'zero':
        return 0.0, created
    if mode == 'fresh':
        return created, created
    if mode == 'half':
        return created + life // 2, created
    if mode == 'last_ms':
        return created + max(life - 1, 0), created
    if mode == 'frac':
        return created + min(life, 1500.5), created
    return created + life, created  # expired (is_expired is <=)


def expected_lists(case: Dict[str, Any], secs: Dict[str, List[Dict[str, Any]]]) -> Dict[str, List[Dict[str, Any]]]:
    """What any decoder must recover, computed from the case alone (harness arithmetic only)."""
    mc = case['multicast']
    exp: Dict[str, List[Dict[str, Any]]] = {'qd': [to_wire_q(q, mc) for q in secs['q']], 'an': [], 'ns': [], 'ar': []}
    for r in secs['an']:
        now, created = answer_now_created(r)
        if now == 0:
            exp['an'].append(to_wire_rr(r, mc))
            continue
        remaining_ms = created + 1000.0 * r['ttl'] - now
        if remaining_ms <= 0:
            continue  # the builder's documented filter: already expired at `now`
        exp['an'].append(to_wire_rr(r, mc, ttl=int(remaining_ms // 1000)))
    exp['ns'] = [to_wire_rr(r, mc) for r in secs['ns']]
    exp['ar'] = [to_wire_rr(r, mc) for r in secs['ar']]
    return exp


def make_record(r: Dict[str, Any], created: Optional[float] = None) -> Any:
    from zeroconf import DNSAddress, DNSHinfo, DNSNsec, DNSPointer, DNSService, DNSText

    cls = r['cls'] | (0x8000 if r['flush'] else 0)
    typ = KIND_TYPE[r['k']]
    k = r['k']
    c = created if created is not None else CREATED_BASE
    if k in ('A', 'AAAA'):
        return DNSAddress(r['name'], typ, cls, r['ttl'], bytes.fromhex(r['addr']), created=c)
    if k in ('PTR', 'CNAME'):
        return DNSPointer(r['name'], typ, cls, r['ttl'], r['target'], c)
    if k == 'TXT':
        return DNSText(r['name'], typ, cls, r['ttl'], gen.txt_bytes(r['txt_len'], r['txt_seed']), c)
    if k == 'SRV':
        return DNSService(r['name'], typ, cls, r['ttl'], r['prio'], r['weight'], r['port'], r['target'], c)
    if k == 'HINFO':
        return DNSHinfo(r['name'], typ, cls, r['ttl'], r['cpu'], r['os'], c)
    return DNSNsec(r['name'], typ, cls, r['ttl'], r['next'], list(r['types']), c)


def build_packets(case: Dict[str, Any], secs: Dict[str, List[Dict[str, Any]]]) -> List[bytes]:
    """Feed the case to the library's message builder through its public add_* calls."""
    from zeroconf import DNSOutgoing, DNSQuestion

    flags = (0x8000 | (0x0400 if case['aa'] else 0)) if case['response'] else 0
    out = DNSOutgoing(flags, case['multicast'], case['id'])
    used = bool(case.get('used_before'))
    qobjs = [DNSQuestion(q['name'], q['type'], q['cls'] | (0x8000 if (q['qu'] != used) else 0)) for q in secs['q']]
    robjs: Dict[str, List[Any]] = {}
    for sec in ('an', 'ns', 'ar'):
        robjs[sec] = [make_record(r, answer_now_created(r)[1] if sec == 'an' else None) for r in secs[sec]]
    if used:
        before = DNSOutgoing(flags, case['multicast'], case['id'])
        for qo in qobjs:
            before.add_question(qo)
        for sec in ('ar', 'ns', 'an'):
            for ro in reversed(robjs[sec]):
                before.add_answer_at_time(ro, 0)
        before.packets()
        for qo, q in zip(qobjs, secs['q']):
            qo.unicast = q['qu']                # the public setter: this time the question is asked the other way
    for qo in qobjs:
        out.add_question(qo)
    inp = None
    if case.get('via_incoming'):
        # the other documented way to add an answer: add_answer(incoming_query, record) - the record goes in with its full TTL
        # unless the query lists it as a known answer (this one lists nothing); the query arrived five seconds after the records
        # were created
        from zeroconf import DNSIncoming

        inp = DNSIncoming(bytes(12), ('10.0.0.9', 5353), None, CREATED_BASE + 5000.0)
    for r, ro in zip(secs['an'], robjs['an']):
        now, created = answer_now_created(r)
        if inp is not None and now == 0:
            out.add_answer(inp, ro)
        else:
            out.add_answer_at_time(ro, now)
    for ro in robjs['ns']:
        out.add_authorative_answer(ro)
    for ro in robjs['ar']:
        out.add_additional_answer(ro)
    first = out.packets()
    # the finished message is what gets sent - more than once when an announcement or goodbye is repeated: asking for the datagrams
    # again must give the same sequence
    again = out.packets()
    if again != first:
        from .core import Violation

        raise Violation('packets() called a second time on the same message returned a different datagram sequence',
                        {'first': [len(p) for p in first], 'second': [len(p) for p in again]}, tag='packets-not-repeatable')
    return first


def all_names(secs: Dict[str, List[Dict[str, Any]]]) -> List[str]:
    out = []
    for sec in ('q', 'an', 'ns', 'ar'):
        for e in secs[sec]:
            out.append(e['name'])
            for f in ('target', 'next'):
                if f in e:
                    out.append(e[f])
    return out


def lib_record_to_wire(rec: Any) -> Dict[str, Any]:
    """Library-decoded record object -> comparable dict (same shape as the independent codec's)."""
    cls = rec.class_ | (0x8000 if rec.unique else 0)
    t = rec.type
    tn = type(rec).__name__
    if tn == 'DNSAddress':
        rd: Dict[str, Any] = {'addr': rec.address}
    elif tn == 'DNSPointer':
        rd = {'target': rec.alias}
    elif tn == 'DNSText':
        rd = {'txt': rec.text}
    elif tn == 'DNSService':
        rd = {'prio': rec.priority, 'weight': rec.weight, 'port': rec.port, 'target': rec.server}
    elif tn == 'DNSHinfo':
        rd = {'cpu': rec.cpu, 'os': rec.os}
    elif tn == 'DNSNsec':
        rd = {'next': rec.next_name, 'types': list(rec.rdtypes)}
    else:
        rd = {'unknown': repr(rec)}
    return {'name': rec.name, 'type': t, 'cls': cls, 'ttl': rec.ttl, 'rd': rd}


def wire_to_text(r: Dict[str, Any]) -> Dict[str, Any]:
    """Independent-codec rr/q -> text form comparable with lib_record_to_wire output."""
    out = {'name': wire.name_text(r['name']), 'type': r['type'], 'cls': r['cls']}
    if 'ttl' in r:
        out['ttl'] = r['ttl']
        rd = dict(r['rd'])
        for f in ('target', 'next'):
            if f in rd:
                rd[f] = wire.name_text(rd[f])
        for f in ('cpu', 'os'):
            if f in rd:
                rd[f] = rd[f].decode('utf-8', 'replace')
        if 'types' in rd:
            rd['types'] = sorted(rd['types'])
        out['rd'] = rd
    return out
