"""Real-thread world with compressed time, for the clauses that are about threads rather than schedules.

`Zeroconf()` created outside a running loop starts its own event-loop thread; `close()`, `register_service()`,
`get_service_info()` and thread-based `ServiceBrowser`s hand work across threads.  None of that can run on the virtual-time
loop of vlib.sim (a selector that never blocks would race through virtual days while another thread works), so this module
runs the unmodified library on a *real* selector loop whose clock is the real monotonic clock multiplied by SCALE: one
second of library time costs 1/SCALE s of wall time.  Sockets are the same fakes as in vlib.sim.

Cases run here are not pure functions of the case JSON (thread scheduling is the operating system's); the oracles used with
this world are therefore timing-free: they only compare the global order of events against the instant a blocking call
returned, count goodbyes, and look at thread liveness.  On a correct tree no schedule can make them fail.
"""
from __future__ import annotations

import asyncio
import selectors
import socket
import threading
import time as _time
from typing import Any, Callable, Dict, List, Optional, Tuple

from .core import HarnessError
from .sim import MDNS4, MDNS6, T0, FakeSock, _RandomShim

_REAL_MONOTONIC = _time.monotonic
SCALE = 10.0


class ScaledClock:
    def __init__(self, scale: float = SCALE) -> None:
        self.scale = scale
        self.r0 = _REAL_MONOTONIC()

    def monotonic(self) -> float:
        return T0 + (_REAL_MONOTONIC() - self.r0) * self.scale


class _ScaledSelector(selectors.DefaultSelector):  # type: ignore[misc,valid-type]
    scale = SCALE

    def select(self, timeout=None):
        if timeout is not None and timeout > 0:
            timeout = timeout / self.scale
        return super().select(timeout)


class RTTransport(asyncio.DatagramTransport):
    def __init__(self, world: 'RTWorld', sock: FakeSock, proto: Any, loop: Any) -> None:
        super().__init__()
        self.world, self.sock, self.proto, self.loop = world, sock, proto, loop
        self.closed = False

    def get_extra_info(self, name, default=None):
        if name == 'socket':
            return self.sock
        if name == 'sockname':
            return self.sock.getsockname()
        return default

    def sendto(self, data, addr=None):
        self.world.sent(self, bytes(data), addr)

    def close(self):
        if self.closed:
            return
        self.world.mark('transport-closed')
        self.closed = True
        try:
            self.loop.call_soon(self.proto.connection_lost, None)      # as asyncio's datagram transports do
        except RuntimeError:
            pass

    def is_closing(self):
        return self.closed

    def abort(self):
        self.closed = True


class RTLoop(asyncio.SelectorEventLoop):
    def __init__(self, world: 'RTWorld') -> None:
        super().__init__(_ScaledSelector())
        self.world = world
        self.set_exception_handler(world.on_loop_exception)

    async def create_datagram_endpoint(self, protocol_factory, local_addr=None, remote_addr=None, *, sock=None, **kw):
        if not isinstance(sock, FakeSock):
            raise HarnessError('create_datagram_endpoint called with a real socket')
        proto = protocol_factory()
        tr = RTTransport(self.world, sock, proto, self)
        self.world.endpoints.append(tr)
        proto.connection_made(tr)
        return tr, proto


class _Policy(asyncio.DefaultEventLoopPolicy):
    def __init__(self, world: 'RTWorld') -> None:
        super().__init__()
        self.world = world

    def new_event_loop(self):
        loop = RTLoop(self.world)
        self.world.loops.append(loop)
        return loop


class _HostStub:
    def __init__(self, name: str, ip: str) -> None:
        self.name, self.ip, self.index = name, ip, 0


class RTWorld:
    """One sync `Zeroconf` instance with its own loop thread.  Use as a context manager from a thread without a running loop."""

    def __init__(self, jitter_seed: int = 0, ip: str = '10.0.0.1', scale: float = SCALE) -> None:
        import random as _random

        self.clock = ScaledClock(scale)
        self.lock = threading.Lock()
        self.g = 0
        self.trace: List[Dict[str, Any]] = []
        self.marks: List[Tuple[int, str]] = []
        self.errors: List[Dict[str, Any]] = []
        self.endpoints: List[RTTransport] = []
        self.loops: List[RTLoop] = []
        self.host = _HostStub('X', ip)
        self.rnd = _random.Random(jitter_seed)
        self._saved: List[Tuple[Any, str, Any]] = []
        self._old_policy: Any = None
        self.zc: Any = None

    # -- bookkeeping (any thread) --------------------------------------------------------------------
    def next_g(self) -> int:
        with self.lock:
            self.g += 1
            return self.g

    def mark(self, what: str) -> int:
        g = self.next_g()
        self.marks.append((g, what))
        return g

    @property
    def now_ms(self) -> float:
        return (self.clock.monotonic() - T0) * 1000.0

    def sent(self, tr: RTTransport, data: bytes, addr: Any) -> None:
        g = self.next_g()
        self.trace.append({'g': g, 't': self.clock.monotonic(), 'host': 'X', 'dst': addr[0], 'port': addr[1], 'data': data,
                           'closed': tr.closed, 'thread': threading.current_thread().name})
        if tr.closed:
            return
        if addr[0] in (MDNS4, MDNS6) and addr[1] == 5353:
            # IP_MULTICAST_LOOP: the instance hears its own multicasts
            src = (self.host.ip, 5353) if tr.sock.family == socket.AF_INET else ('fe80::1', 5353, 0, 2)
            tr.loop.call_later(0.001, self._deliver, tr, data, src)

    def _deliver(self, tr: RTTransport, data: bytes, src: Tuple) -> None:
        if not tr.closed:
            tr.proto.datagram_received(data, src)

    def inject(self, data: bytes, src: Tuple) -> bool:
        """Hand a datagram to the instance's listening socket (from any thread). False if the loop is gone."""
        eps = [e for e in self.endpoints if e.sock.role in ('listen', 'both')]
        if not eps:
            return False
        tr = eps[0]
        try:
            tr.loop.call_soon_threadsafe(self._deliver, tr, data, src)
        except RuntimeError:       # loop closed
            return False
        return True

    def on_loop_exception(self, loop: Any, ctx: Dict[str, Any]) -> None:
        exc = ctx.get('exception')
        self.errors.append({'g': self.next_g(), 'message': ctx.get('message'), 'exception': repr(exc),
                            'type': type(exc).__name__ if exc else None})

    def sleep_ms(self, ms: float) -> None:
        """library-time sleep of the calling (harness) thread"""
        if ms > 0:
            _time.sleep(ms / 1000.0 / self.clock.scale)

    # -- patching ------------------------------------------------------------------------------------
    def _patch(self, obj: Any, attr: str, value: Any) -> None:
        self._saved.append((obj, attr, getattr(obj, attr)))
        setattr(obj, attr, value)

    def _create_sockets(self, interfaces=None, unicast=False, ip_version=None, apple_p2p=False):
        s = FakeSock(socket.AF_INET, (self.host.ip, 5353), 100, self.host, 'both')  # type: ignore[arg-type]
        return s, [s]

    def __enter__(self) -> 'RTWorld':
        import zeroconf._core as core
        import zeroconf._handlers.multicast_outgoing_queue as moq
        import zeroconf._listener as lst
        import zeroconf._services.browser as brw
        import zeroconf._services.info as inf

        rnd = self.rnd
        draw: Callable[[int, int], int] = lambda a, b: rnd.randint(a, b)
        self._patch(_time, 'monotonic', self.clock.monotonic)
        self._patch(core, 'create_sockets', self._create_sockets)
        self._patch(moq, 'RAND_INT', draw)
        self._patch(inf, 'randint', draw)
        self._patch(lst, 'random', _RandomShim(draw))
        self._patch(brw, 'random', _RandomShim(draw))
        # the safeguard added to every cross-thread wait (10 s of real time in production) is compressed as well, but less than
        # the clock: 3 s of real time for hand-offs that take a few milliseconds
        import zeroconf._utils.asyncio as zua

        self._patch(zua, '_LOADED_SYSTEM_TIMEOUT', 3.0)
        self._old_policy = asyncio.get_event_loop_policy()
        asyncio.set_event_loop_policy(_Policy(self))
        return self

    def start(self) -> Any:
        from zeroconf import Zeroconf

        self.zc = Zeroconf()
        return self.zc

    def __exit__(self, *exc: Any) -> None:
        try:
            zc = self.zc
            if zc is not None:
                try:
                    if zc._loop_thread is not None and zc._loop_thread.is_alive():
                        zc.close()
                except BaseException:  # noqa
                    pass
            for loop in self.loops:
                try:
                    if loop.is_running():
                        loop.call_soon_threadsafe(loop.stop)
                except BaseException:  # noqa
                    pass
            _time.sleep(0.01)
            for loop in self.loops:
                try:
                    if not loop.is_running() and not loop.is_closed():
                        loop.close()
                except BaseException:  # noqa
                    pass
        finally:
            asyncio.set_event_loop_policy(self._old_policy)
            for obj, attr, val in reversed(self._saved):
                setattr(obj, attr, val)
            self._saved.clear()
            import zeroconf._logger as zl
            import zeroconf._protocol.incoming as zi

            zi._seen_logs.clear()
            zl.QuietLogger._seen_logs.clear()
