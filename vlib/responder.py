"""ResponderModel: registry -> expected answers/additionals (RFC 6762/6763 as property C03 words it).

Service description (JSON): {'type','name','port','server','addrs':[text],'props':hex TXT bytes,'host_ttl','other_ttl',
                             'weight','priority'}
Record identity tuples (all names lower-cased; NSEC owner ignored, its TTL is part of the tuple):
  ('PTR', owner, alias) ('SRV', name, prio, weight, port, server) ('TXT', name, hex) ('A'|'AAAA', host, hex) ('NSEC', (types), ttl, owner)
"""
from __future__ import annotations

import ipaddress
from typing import Any, Dict, List, Optional, Set, Tuple

from . import wire

ENUM = '_services._dns-sd._udp.local.'
T_A, T_PTR, T_TXT, T_AAAA, T_SRV, T_NSEC, T_ANY = 1, 12, 16, 28, 33, 47, 255


def addr_bytes(a: str) -> bytes:
    return ipaddress.ip_address(a).packed


class Svc:
    def __init__(self, d: Dict[str, Any]) -> None:
        self.d = d
        self.type = d['type']
        self.name = d['name']
        self.server = d.get('server') or d['name']
        self.host_ttl = d.get('host_ttl', 120)
        self.other_ttl = d.get('other_ttl', 4500)
        self.addrs = [addr_bytes(a) for a in d.get('addrs', [])]
        props = d.get('props', '')
        self.text = bytes.fromhex(props) if isinstance(props, str) else b''

    def ptr(self) -> Tuple:
        return ('PTR', self.type.lower(), self.name.lower())

    def srv(self) -> Tuple:
        return ('SRV', self.name.lower(), self.d.get('priority', 0), self.d.get('weight', 0), self.d.get('port', 80),
                self.server.lower())

    def txt(self) -> Tuple:
        return ('TXT', self.name.lower(), self.text.hex())

    def addresses(self, typ: Optional[int] = None) -> List[Tuple]:
        out = []
        for a in self.addrs:
            t = T_A if len(a) == 4 else T_AAAA
            if typ in (None, t):
                out.append(('A' if t == T_A else 'AAAA', self.server.lower(), a.hex()))
        return out

    def nsec(self) -> Tuple:
        """NSEC identity; the owner (4th element) is what the library uses (the instance name). C03 ignores it."""
        return ('NSEC', self.missing(), self.host_ttl, self.name.lower())

    def families(self) -> Set[int]:
        return {T_A if len(a) == 4 else T_AAAA for a in self.addrs}

    def missing(self) -> Tuple[int, ...]:
        return tuple(sorted({T_A, T_AAAA} - self.families()))

    def records_with_ttl(self) -> Dict[Tuple, int]:
        """Every record this service may legitimately contribute (answers or additionals)."""
        out = {self.ptr(): self.other_ttl, self.srv(): self.host_ttl, self.txt(): self.other_ttl}
        for a in self.addresses():
            out[a] = self.host_ttl
        if self.missing():
            out[self.nsec()] = self.host_ttl
        return out


class ResponderModel:
    def __init__(self) -> None:
        self.services: Dict[str, Svc] = {}     # lower-cased instance name -> service

    def register(self, d: Dict[str, Any]) -> None:
        self.services[d['name'].lower()] = Svc(d)

    def unregister(self, name: str) -> None:
        self.services.pop(name.lower(), None)

    def answers(self, questions: List[Tuple[str, int]], known: List[Tuple[Tuple, int]]):
        """-> (expected {identity: ttl}, dont_care identities, allowed additionals {identity: ttl}, producing services)

        known = [(identity, ttl)] from the query's answer section.
        """
        ka: Dict[Tuple, int] = {}
        for ident, ttl in known:
            ka[ident] = ttl
        exp: Dict[Tuple, int] = {}
        dont_care: Set[Tuple] = set()
        producers: List[Svc] = []

        def offer(ident: Tuple, ttl: int, svc: Optional[Svc]) -> None:
            k = ka.get(ident)
            if k is not None and k > ttl / 2:
                return
            exp[ident] = ttl
            if svc is not None and svc not in producers:
                producers.append(svc)

        for qname, qtype in questions:
            low = qname.lower()
            if qtype == T_PTR and low == ENUM:
                for t in sorted({s.type.lower() for s in self.services.values()}):
                    offer(('PTR', ENUM, t), 4500, None)
                continue
            if qtype in (T_PTR, T_ANY):
                for s in self.services.values():
                    if s.type.lower() == low:
                        offer(s.ptr(), s.other_ttl, s)
            if qtype in (T_A, T_AAAA):
                on_host = [s for s in self.services.values() if s.server.lower() == low]
                fams = {frozenset(s.families()) for s in on_host}
                for s in on_host:
                    for a in s.addresses(qtype):
                        offer(a, s.host_ttl, s)
                    if qtype not in s.families():
                        ident = s.nsec()
                        if len(fams) > 1:
                            dont_care.add(ident)   # services on one host disagree on families: whose view wins is unspecified
                        else:
                            exp[ident] = s.host_ttl
                            if s not in producers:
                                producers.append(s)
                if len(fams) > 1:
                    for s in on_host:
                        dont_care.add(s.nsec())
            if qtype == T_ANY:
                # ANY on a host name is outside the completeness claim
                for s in self.services.values():
                    if s.server.lower() == low:
                        for ident in s.records_with_ttl():
                            if ident[0] in ('A', 'AAAA', 'NSEC'):
                                dont_care.add(ident)
            if qtype in (T_SRV, T_TXT, T_ANY):
                s = self.services.get(low)
                if s is not None:
                    if qtype in (T_SRV, T_ANY):
                        offer(s.srv(), s.host_ttl, s)
                    if qtype in (T_TXT, T_ANY):
                        offer(s.txt(), s.other_ttl, s)
        dont_care -= set(exp)      # explicitly asked records stay required even if another question makes them optional
        allowed: Dict[Tuple, int] = {}
        for s in self.services.values():
            # additionals may come from any service that produced an answer; address questions involve every
            # service on the asked host
            if s in producers:
                allowed.update(s.records_with_ttl())
        return exp, dont_care, allowed, producers


def strip_nsec_owner(ident: Optional[Tuple]) -> Optional[Tuple]:
    return ident[:3] if ident is not None and ident[0] == 'NSEC' else ident


def ident_of_wire_rr(r: Dict[str, Any]) -> Optional[Tuple]:
    """Identity of an independent-codec rr in the model's vocabulary (None for foreign types)."""
    t = r['type']
    name = wire.name_text(r['name']).lower()
    rd = r['rd']
    if t == T_PTR:
        return ('PTR', name, wire.name_text(rd['target']).lower())
    if t == T_SRV:
        return ('SRV', name, rd['prio'], rd['weight'], rd['port'], wire.name_text(rd['target']).lower())
    if t == T_TXT:
        return ('TXT', name, rd['txt'].hex())
    if t == T_A:
        return ('A', name, rd['addr'].hex())
    if t == T_AAAA:
        return ('AAAA', name, rd['addr'].hex())
    if t == T_NSEC:
        return ('NSEC', tuple(sorted(rd['types'])), r['ttl'], name)
    return None


def wire_rr_of_ident(ident: Tuple, ttl: int, flush: bool = False, owner_for_nsec: str = 'x.local.') -> Dict[str, Any]:
    """Model identity -> independent-codec rr (used to build known-answer lists and injected announcements)."""
    k = ident[0]
    cls = 1 | (0x8000 if flush else 0)
    if k == 'PTR':
        return {'name': wire.labels_of(ident[1]), 'type': T_PTR, 'cls': 1, 'ttl': ttl, 'rd': {'target': wire.labels_of(ident[2])}}
    if k == 'SRV':
        return {'name': wire.labels_of(ident[1]), 'type': T_SRV, 'cls': cls, 'ttl': ttl,
                'rd': {'prio': ident[2], 'weight': ident[3], 'port': ident[4], 'target': wire.labels_of(ident[5])}}
    if k == 'TXT':
        return {'name': wire.labels_of(ident[1]), 'type': T_TXT, 'cls': cls, 'ttl': ttl, 'rd': {'txt': bytes.fromhex(ident[2])}}
    if k in ('A', 'AAAA'):
        return {'name': wire.labels_of(ident[1]), 'type': T_A if k == 'A' else T_AAAA, 'cls': cls, 'ttl': ttl,
                'rd': {'addr': bytes.fromhex(ident[2])}}
    return {'name': wire.labels_of(owner_for_nsec), 'type': T_NSEC, 'cls': cls, 'ttl': ttl,
            'rd': {'next': wire.labels_of(owner_for_nsec), 'types': list(ident[1])}}


def build_query(questions: List[Tuple[str, int, bool]], known: List[Dict[str, Any]], qid: int = 0, tc: bool = False,
                authorities: Optional[List[Dict[str, Any]]] = None) -> bytes:
    """questions = [(name, type, qu)]"""
    m = {'id': qid, 'flags': 0x0200 if tc else 0,
         'qd': [{'name': wire.labels_of(n), 'type': t, 'cls': 1 | (0x8000 if qu else 0)} for n, t, qu in questions],
         'an': known, 'ns': authorities or [], 'ar': []}
    return wire.encode(m)
